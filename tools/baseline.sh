#!/bin/bash
# Runs the repository's pinned test suite (guard off) and checks the 66 stable tests pass.
export GOPROXY=off GOSUMDB=off GOTOOLCHAIN=local
cd /repo/v2 && go test -mod=mod -json -vet=off -count=1 -timeout 25m ./... 2>/dev/null > /tmp/baseline.$$.json
python3 - /tmp/baseline.$$.json <<'PY'
import json,sys
want=set(json.load(open('/root/.vp/BASELINE.json'))['stable_pass'])
got=set()
for l in open(sys.argv[1]):
    try: e=json.loads(l)
    except: continue
    if e.get('Action')=='pass' and e.get('Test'):
        got.add(e['Package']+'::'+e['Test'])
missing=sorted(want-got)
print("baseline tests passing: %d/%d"%(len(want&got),len(want)))
for m in missing: print("MISSING", m)
sys.exit(1 if missing else 0)
PY
rc=$?; rm -f /tmp/baseline.$$.json; exit $rc
