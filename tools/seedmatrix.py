#!/usr/bin/env python3
# usage: seedmatrix.py <selftest output file>...   -> markdown table "seed | what | caught by"
import sys, re, json, os, glob
res = {}
for fn in sys.argv[1:]:
    for l in open(fn):
        m = re.match(r'SELFTEST (\S+) (C\d+): (caught|MISSED)(.*)', l)
        if not m:
            continue
        name, prop, st, rest = m.groups()
        obl = sorted(set(re.findall(r'obligation=(\S+)', rest)))
        res.setdefault(name, {})[prop] = (st, obl[:2])
def what(name):
    for p in ('/verif/seeded/%s/notes.md' % name,):
        if os.path.exists(p):
            for l in open(p):
                l = l.strip().lstrip('#').strip()
                if l:
                    return l[:110]
    j = '/verif/selftest/%s.json' % name
    if os.path.exists(j):
        return json.load(open(j)).get('what', '')[:110]
    return ''
print('| seed | change (first line of its notes) | result |')
print('|------|------|------|')
for name in sorted(res):
    cells = []
    for prop, (st, obl) in sorted(res[name].items()):
        cells.append('%s: %s%s' % (prop, 'caught' if st == 'caught' else '**missed**', (' (' + ', '.join('`%s`' % o for o in obl) + ')') if obl and st == 'caught' else ''))
    print('| %s | %s | %s |' % (name, what(name).replace('|', '/'), '; '.join(cells)))
