#!/bin/bash
# Must-fail corpus: each patch must make the named property checks report a VIOLATION.
# usage: selftest.sh [name-glob]     (runs on a scratch copy of /repo, never on /repo itself)
cd /verif
pat="${1:-*}"
fail=0
for j in selftest/$pat.json seeded/$pat/meta.json; do
  [ -f "$j" ] || continue
  if [[ "$j" == seeded/* ]]; then d=$(dirname $j); name=$(basename $d); diff=$d/patch.diff; else name=$(basename $j .json); diff=selftest/$name.diff; fi
  props=$(python3 -c "import json;m=json.load(open('$j'));print(' '.join(m.get('properties') or [m.get('property')]))")
  S=$(mktemp -d /tmp/govc-self.XXXXXX)
  git -C /repo worktree add -q --detach $S/repo HEAD 2>/dev/null || { cp -r /repo $S/repo; }
  if ! git -C $S/repo apply "$PWD/$diff" 2>/dev/null; then
    if ! (cd $S/repo && patch -p1 -s < "$PWD/$diff" >/dev/null 2>&1); then
      echo "SELFTEST $name: PATCH DOES NOT APPLY to the current HEAD (rebase or retire it); skipped"; fail=1
      git -C /repo worktree remove --force $S/repo 2>/dev/null; rm -rf $S; continue
    fi
  fi
  for p in $props; do
    out=$(GOVC_REPO=$S/repo GOVC_EVIDENCE_DIR=$S/ev ./check $p quick 2>&1); rc=$?
    if [ $rc -eq 1 ] && echo "$out" | grep -q "^VIOLATION property=$p"; then
      echo "SELFTEST $name $p: caught: $(echo "$out" | grep '^VIOLATION' | head -2 | sed 's/replay=[^ ]* //' | tr '\n' ';')"
    else
      echo "SELFTEST $name $p: MISSED (rc=$rc) $(echo "$out" | tail -1)"; fail=1
    fi
  done
  git -C /repo worktree remove --force $S/repo 2>/dev/null; rm -rf $S
done
exit $fail
