#!/bin/bash
# usage: vetseed.sh <property> <k> [extra properties to check...]
# Confirms a sub-agent's seeded change in a scratch worktree of /repo HEAD and stores it under /verif/seeded/.
id=$1; k=$2; shift 2; extra="$@"
src=${SEEDSRC:-/tmp/seedout}-$id/$k
kk=$((k + ${KOFF:-0}))
[ -f $src/patch.diff ] || { echo "no patch in $src"; exit 2; }
export GOFLAGS=-mod=mod GOPROXY=off GOSUMDB=off GOTOOLCHAIN=local
S=$(mktemp -d /tmp/vetseed.XXXXXX)
git -C /repo worktree add -q --detach $S/repo HEAD || exit 2
cleanup() { git -C /repo worktree remove --force $S/repo 2>/dev/null; rm -rf $S; }
trap cleanup EXIT
demo=$src/demo_test.go
dir=$(head -3 $demo | grep -o 'v2[/a-zA-Z0-9_]*' | head -1)
[ -d "$S/repo/$dir" ] || { echo "cannot find demo dir from header: $(head -1 $demo)"; exit 2; }
name=zz_seed_demo_test.go
cp $demo $S/repo/$dir/$name
SUITE="go test -vet=off -count=1 . ./internal/... ./smf/... ./sequencer/... ./drivers/testdrv/... ./drivers/midicat/... ./drivers/internal/..."
( cd $S/repo/$dir && go test -vet=off -count=1 . ) > $S/demo_without.log 2>&1; r1=$?
if ! git -C $S/repo apply $src/patch.diff 2>$S/apply.log; then
  if ! (cd $S/repo && patch -p1 -s < $src/patch.diff) ; then echo "PATCH DOES NOT APPLY to current HEAD: $(cat $S/apply.log | head -3)"; exit 3; fi
fi
( cd $S/repo/$dir && go test -vet=off -count=1 . ) > $S/demo_with.log 2>&1; r2=$?
rm $S/repo/$dir/$name
( cd $S/repo/v2 && $SUITE ) > $S/suite.log 2>&1; r3=$?
echo "demo without change: rc=$r1 (want 0); demo with change: rc=$r2 (want !=0); suite with change: rc=$r3 (want 0)"
if [ $r1 -ne 0 ]; then tail -15 $S/demo_without.log; fi
if [ $r3 -ne 0 ]; then grep -v "^ok\|no test files" $S/suite.log | tail -10; fi
if [ $r1 -eq 0 ] && [ $r2 -ne 0 ] && [ $r3 -eq 0 ]; then
  d=/verif/seeded/$id-$kk; mkdir -p $d
  (cd $S/repo && git diff) > $d/patch.diff
  cp $demo $d/demo_test.go; cp $src/notes.md $d/notes.md 2>/dev/null
  python3 - "$id" "$kk" "$d" "$dir" <<'PY'
import json,sys,re
id,k,d,dir=sys.argv[1:5]
notes=open(d+'/notes.md').read() if True else ''
json.dump({"property":id,"properties":[id],"name":"%s-%s"%(id,k),"demo_dir":dir,
 "needs":"see notes.md (written by the sub-agent that produced the change)",
 "ran":["demo without change: pass","demo with change: fail","existing suite with change: pass (confirmed by tools/vetseed.sh in a scratch worktree of /repo HEAD)"],
 "source":"independent sub-agent given only the property text and a scratch worktree"},open(d+'/meta.json','w'),indent=1)
PY
  echo "CONFIRMED -> $d"
  for p in $id $extra; do
    out=$(cd /verif && GOVC_REPO=$S/repo GOVC_EVIDENCE_DIR=$S/ev ./check $p quick 2>&1); rc=$?
    echo "  check $p: rc=$rc $(echo "$out" | grep -c '^VIOLATION') violation lines; $(echo "$out" | grep '^VIOLATION' | head -3 | sed 's/replay=[^ ]* //' | cut -c1-200 | tr '\n' ';')"
  done
else
  echo "NOT CONFIRMED"
fi
