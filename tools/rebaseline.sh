#!/bin/bash
# rewrites every baseline from the current (clean!) /repo: discharged obligation names and dead sites per
# property, declared variables per function under contract, struct fields per type
cd /verif
for f in props/C*.json; do id=$(basename $f .json); bin/govc check -prop $id -tier quick -repo /repo -verif /verif -update-baseline | tail -1; done
bin/govc locals -pkgs .,./smf,./sysex,./mmc,./sequencer,./drivers,./drivers/testdrv,./drivers/midicat,./drivers/midicatdrv,./internal/utils,./internal/runningstatus
