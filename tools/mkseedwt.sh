#!/bin/bash
# creates a scratch worktree of /repo for a mutation sub-agent, without the verif contract files
id=$1
d=/tmp/seed-$id
rm -rf $d; git -C /repo worktree prune
git -C /repo worktree add -q --detach $d HEAD || exit 1
cd $d && find . -name 'zz_contracts*_verif.go' -delete && git -c user.name=scratch -c user.email=s@x commit -qam "scratch base (verif files removed)" && echo $d
