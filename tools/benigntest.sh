#!/bin/bash
# Must-pass corpus: behaviour-preserving changes (benign/<name>/patch.diff + meta.json "properties").
# Each named property check must exit 0 without a VIOLATION line on the changed tree.
# usage: benigntest.sh [name-glob]     (scratch worktrees of /repo HEAD, never /repo itself)
cd /verif
pat="${1:-*}"
fail=0
for j in benign/$pat/meta.json; do
  [ -f "$j" ] || continue
  d=$(dirname $j); name=$(basename $d)
  props=$(python3 -c "import json;print(' '.join(json.load(open('$j'))['properties']))")
  S=$(mktemp -d /tmp/govc-benign.XXXXXX)
  git -C /repo worktree add -q --detach $S/repo HEAD 2>/dev/null || { echo "cannot create worktree"; exit 2; }
  if ! git -C $S/repo apply "$PWD/$d/patch.diff" 2>/dev/null; then
    if ! (cd $S/repo && patch -p1 -s < "$PWD/$d/patch.diff" >/dev/null 2>&1); then
      echo "BENIGN $name: PATCH DOES NOT APPLY to the current HEAD (rebase it); skipped"; fail=1
      git -C /repo worktree remove --force $S/repo 2>/dev/null; rm -rf $S; continue
    fi
  fi
  for p in $props; do
    out=$(GOVC_REPO=$S/repo GOVC_EVIDENCE_DIR=$S/ev ./check $p quick 2>&1); rc=$?
    if [ $rc -eq 0 ] && ! echo "$out" | grep -q "^VIOLATION"; then
      echo "BENIGN $name $p: quiet"
    else
      echo "BENIGN $name $p: FALSE ALARM (rc=$rc) $(echo "$out" | grep '^VIOLATION\|^ERROR' | head -3 | sed 's/replay=[^ ]* //' | cut -c1-260 | tr '\n' ';')"; fail=1
    fi
  done
  git -C /repo worktree remove --force $S/repo 2>/dev/null; rm -rf $S
done
exit $fail
