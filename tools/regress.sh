#!/bin/bash
# runs the quick check of every property that has a props file; prints one summary line each
cd /verif
for f in props/C*.json; do id=$(basename $f .json); ./check $id quick 2>&1 | grep -E "^C[0-9]+ quick|^VIOLATION|KNOWN" | cut -c1-260; done
