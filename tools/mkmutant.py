#!/usr/bin/env python3
# usage: mkmutant.py <name> <props,comma> <file-in-repo> <old> <new> [count]
# creates /verif/selftest/<name>.diff (+ .json) by replacing old with new in a scratch copy
import sys,subprocess,os,json,tempfile,shutil
name,props,path,old,new=sys.argv[1:6]
src=open('/repo/'+path).read()
assert src.count(old)>=1, "pattern not found"
d=tempfile.mkdtemp()
a=os.path.join(d,'a',path); b=os.path.join(d,'b',path)
os.makedirs(os.path.dirname(a)); os.makedirs(os.path.dirname(b))
open(a,'w').write(src); open(b,'w').write(src.replace(old,new,1))
r=subprocess.run(['diff','-u','a/'+path,'b/'+path],cwd=d,capture_output=True,text=True)
open('/verif/selftest/%s.diff'%name,'w').write(r.stdout)
json.dump({"name":name,"properties":props.split(','),"file":path},open('/verif/selftest/%s.json'%name,'w'))
shutil.rmtree(d)
print(r.stdout)
