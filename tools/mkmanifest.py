#!/usr/bin/env python3
# Generates /verif/MANIFEST.json from the table below (kept next to the code so it stays current).
import json, os, subprocess
V = os.path.dirname(os.path.dirname(os.path.abspath(__file__)))
TECH = "contract-based deductive verification: VCs generated from go/ssa of /repo by govc, discharged by z3/z3-new/cvc5"
TB = ("Trusted: govc itself (VC generator, written in this task), go/ssa (x/tools v0.29.0), the SMT solvers; "
      "int/uint treated as mathematical integers; allocation succeeds; single goroutine; "
      "contracts marked 'trusted' in /repo/v2/**/zz_contracts*_verif.go and /verif/spec/stdlib.gvs are assumed, not proved; "
      "the per-run list is in the evidence file (trusted_base, assumptions).")
claimed = json.load(open(os.path.join(V, "tools", "claims.json")))
allids = [json.loads(l)["id"] for l in open(os.path.join(V, "properties.jsonl"))]
checks = []
na = []
for pid in allids:
    c = claimed.get(pid)
    if c and c.get("claim"):
        checks.append({
            "property_id": pid,
            "quick_cmd": "./check %s quick" % pid,
            "thorough_cmd": "./check %s thorough" % pid,
            "evidence_file": "/verif/evidence/%s.json" % pid,
            "replay_cmd_template": "./check --replay {path}",
            "engine": "govc",
            "level_claimed": {"category": "proof", "text": c["text"], "design_ref": c.get("ref", "DESIGN.md §4")},
            "level_note": c.get("note", "") + " " + TB,
            "technique": TECH,
        })
    else:
        na.append({"property_id": pid, "reason": (c or {}).get("reason", "not decided yet by the contract machinery in this tree; no claim is made")})
commits = subprocess.run(["git", "-C", "/repo", "log", "--format=%H %s"], capture_output=True, text=True).stdout.splitlines()
hooks = [l.split()[0] for l in commits if " verif:" in l]
m = {
    "version": 1,
    "setup_cmd": "cd /verif/govc && GOFLAGS=-mod=vendor GOPROXY=off GOSUMDB=off GOTOOLCHAIN=local go build -o /verif/bin/govc ./cmd/govc",
    "hooks": {
        "guard": "verif",
        "enable": "go build -tags verif (the checks load /repo/v2 with -tags verif; guarded files zz_contracts*_verif.go hold contracts as //@ comments and proof-harness functions)",
        "baseline_off_cmd": "cd /repo/v2 && GOFLAGS=-mod=mod GOPROXY=off GOSUMDB=off go test -vet=off -count=1 ./...",
        "source_commits": hooks,
        "add_only": True,
    },
    "engines": [{"name": "govc", "path": "/verif/govc", "serves_properties": [c["property_id"] for c in checks],
                 "kind_free_text": "self-built deductive verifier for Go: weakest-precondition style VC generation over go/ssa with contracts (requires/ensures/invariants/modifies/ghost state/lemmas), SMT back ends z3 4.8.12, z3-new 5.1.0, cvc5 1.0.3"}],
    "checks": checks,
    "not_applicable": na,
    "notes": "See DESIGN.md. Contracts live in /repo/v2/**/zz_contracts*_verif.go (build tag verif); oracles and trusted stdlib contracts in /verif/spec/*.gvs; per-property function slices in /verif/props/*.json; known findings in /verif/KNOWN_FINDINGS.json.",
}
json.dump(m, open(os.path.join(V, "MANIFEST.json"), "w"), indent=1)
print("checks:", len(checks), "not_applicable:", len(na))
