#!/usr/bin/env python3
# usage: addfinding.py fixed|known <property> <obligation> <commit-or-> <what...>
import json,sys
p='/verif/KNOWN_FINDINGS.json'
d=json.load(open(p))
status,prop,obl,commit=sys.argv[1:5]
what=' '.join(sys.argv[5:])
e={"property":prop,"status":status,"obligation":obl,"what":what}
if status=='fixed':
    e["commit"]=commit
    e["line"]="fixed: property=%s %s %s"%(prop,commit,what)
else:
    e["line"]="KNOWN-FINDING: property=%s %s %s"%(prop,obl,what)
d["findings"].append(e)
json.dump(d,open(p,'w'),indent=1)
