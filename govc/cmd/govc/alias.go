package main

// Rename tolerance. Contracts live in comment-only files and name parameters, named results and
// loop-carried locals of the real functions. A harmless rename of such a variable in /repo would make
// the contract unattachable. The baseline props/locals.json records, per function under contract,
// the declared variables (name, type) in declaration order as they were when the contracts were written;
// when a name of the baseline is gone and a variable of the same type sits at the aligned position
// under a new name, the contract's identifier is re-pointed to the new name. The binding is only a
// guess about which variable is meant: the obligations are then generated and discharged as usual, so
// a wrong guess can only make the proof fail, never pass.

import (
	"encoding/json"
	"fmt"
	"go/ast"
	"go/token"
	"go/types"
	"os"
	"path/filepath"
	"sort"
	"strings"

	"golang.org/x/tools/go/ssa"
)

type declVar struct {
	Name string `json:"n"`
	Type string `json:"t"`
}

func (e *Engine) typesInfoFor(fn *ssa.Function) *types.Info {
	if fn.Pkg == nil {
		return nil
	}
	for _, p := range e.allPkgs() {
		if p.Types == fn.Pkg.Pkg {
			return p.TypesInfo
		}
	}
	return nil
}

func (e *Engine) allPkgs() []*pkgT {
	if e.pkgList != nil {
		return e.pkgList
	}
	seen := map[string]bool{}
	var walk func(ps []*pkgT)
	walk = func(ps []*pkgT) {
		for _, p := range ps {
			if seen[p.ID] {
				continue
			}
			seen[p.ID] = true
			e.pkgList = append(e.pkgList, p)
			var imps []*pkgT
			for _, ip := range p.Imports {
				imps = append(imps, ip)
			}
			walk(imps)
		}
	}
	walk(e.pkgs)
	return e.pkgList
}

// declaredVars lists the variables a function declares (receiver, parameters, named results, locals,
// including those of nested function literals) in source order.
func (e *Engine) declaredVars(fn *ssa.Function) []declVar {
	syn := fn.Syntax()
	info := e.typesInfoFor(fn)
	if syn == nil || info == nil {
		return nil
	}
	type pv struct {
		pos token.Pos
		v   declVar
	}
	var all []pv
	q := types.RelativeTo(fn.Pkg.Pkg)
	ast.Inspect(syn, func(n ast.Node) bool {
		id, ok := n.(*ast.Ident)
		if !ok || id.Name == "_" {
			return true
		}
		if obj, ok := info.Defs[id].(*types.Var); ok && obj != nil && !obj.IsField() {
			all = append(all, pv{id.Pos(), declVar{id.Name, types.TypeString(obj.Type(), q)}})
		}
		return true
	})
	sort.SliceStable(all, func(i, j int) bool { return all[i].pos < all[j].pos })
	out := make([]declVar, len(all))
	for i, a := range all {
		out[i] = a.v
	}
	return out
}

func localsPath(verif string) string { return filepath.Join(verif, "props", "locals.json") }

// writeLocalsBaseline records the declared variables of every function under contract.
func (e *Engine) writeLocalsBaseline(verif string) error {
	m := map[string][]declVar{}
	if raw, err := os.ReadFile(localsPath(verif)); err == nil {
		json.Unmarshal(raw, &m) // entries of packages not loaded in this run are kept
	}
	for k, ct := range e.contracts {
		if ct.Trusted && len(ct.Params) > 0 {
			continue
		}
		fn := e.findFunc(k)
		if fn == nil {
			continue
		}
		if dv := e.declaredVars(fn); len(dv) > 0 {
			m[k] = dv
		}
	}
	raw, _ := json.MarshalIndent(m, "", " ")
	return os.WriteFile(localsPath(verif), append(raw, '\n'), 0o644)
}

// alignAliases aligns the baseline with the current declarations (equal types only; equal names preferred)
// and returns old name -> new name for baseline names that no longer exist.
func alignAliases(base, cur []declVar) map[string]string {
	n, m := len(base), len(cur)
	// score[i][j]: best score aligning base[i:] with cur[j:]
	score := make([][]int, n+1)
	for i := range score {
		score[i] = make([]int, m+1)
	}
	match := func(i, j int) int {
		if base[i].Type != cur[j].Type {
			return -1
		}
		if base[i].Name == cur[j].Name {
			return 3
		}
		return 1
	}
	for i := n - 1; i >= 0; i-- {
		for j := m - 1; j >= 0; j-- {
			best := score[i+1][j]
			if s := score[i][j+1]; s > best {
				best = s
			}
			if w := match(i, j); w > 0 && score[i+1][j+1]+w > best {
				best = score[i+1][j+1] + w
			}
			score[i][j] = best
		}
	}
	curNames := map[string]bool{}
	for _, c := range cur {
		curNames[c.Name] = true
	}
	baseNames := map[string]bool{}
	for _, b := range base {
		baseNames[b.Name] = true
	}
	alias := map[string]string{}
	conflict := map[string]bool{}
	i, j := 0, 0
	for i < n && j < m {
		w := match(i, j)
		switch {
		case w > 0 && score[i][j] == score[i+1][j+1]+w:
			if base[i].Name != cur[j].Name && !curNames[base[i].Name] && !baseNames[cur[j].Name] {
				if prev, ok := alias[base[i].Name]; ok && prev != cur[j].Name {
					conflict[base[i].Name] = true
				}
				alias[base[i].Name] = cur[j].Name
			}
			i++
			j++
		case score[i][j] == score[i+1][j]:
			i++
		default:
			j++
		}
	}
	for k := range conflict {
		delete(alias, k)
	}
	return alias
}

func renameIdents(x *SX, alias map[string]string, bound map[string]bool) {
	if x == nil {
		return
	}
	switch x.Op {
	case "ident":
		name, suffix := x.Tok, ""
		if i := strings.LastIndex(name, "$"); i > 0 {
			name, suffix = name[:i], name[i:]
		}
		if !bound[name] {
			if nn, ok := alias[name]; ok {
				x.Tok = nn + suffix
			}
		}
		return
	case "forall", "exists":
		nb := map[string]bool{}
		for k := range bound {
			nb[k] = true
		}
		for _, b := range x.BindNames {
			nb[b] = true
		}
		bound = nb
	}
	for _, a := range x.Args {
		renameIdents(a, alias, bound)
	}
	for _, p := range x.Pats {
		renameIdents(p, alias, bound)
	}
}

// applyAliases re-points contract identifiers to renamed variables (see the comment at the top).
func (e *Engine) applyAliases(verif string) {
	raw, err := os.ReadFile(localsPath(verif))
	if err != nil {
		return
	}
	base := map[string][]declVar{}
	if json.Unmarshal(raw, &base) != nil {
		return
	}
	e.baseLocals = base
	var keys []string
	for k := range e.contracts {
		keys = append(keys, k)
	}
	sort.Strings(keys)
	for _, k := range keys {
		ct := e.contracts[k]
		b, ok := base[k]
		if !ok {
			continue
		}
		fn := e.findFunc(k)
		if fn == nil {
			continue
		}
		alias := alignAliases(b, e.declaredVars(fn))
		if len(alias) == 0 {
			continue
		}
		var parts []string
		for o, n := range alias {
			parts = append(parts, o+"->"+n)
		}
		sort.Strings(parts)
		e.aliasNotes = append(e.aliasNotes, fmt.Sprintf("contract of %s re-attached to renamed variables (%s)", k, strings.Join(parts, ", ")))
		none := map[string]bool{}
		for _, cs := range [][]*Clause{ct.Requires, ct.Ensures, ct.Modifies} {
			for _, c := range cs {
				renameIdents(c.X, alias, none)
			}
		}
		for _, ls := range ct.Loops {
			for _, c := range ls.Invariants {
				renameIdents(c.X, alias, none)
			}
			if ls.Decreases != nil {
				renameIdents(ls.Decreases.X, alias, none)
			}
		}
	}
}

// New unexported state. A field that did not exist when the contracts were written (props/fields.json)
// cannot be named by any contract: every verified function is therefore proved for arbitrary values of
// it. Writes to such a field are exempt from the frame check, and - so that the exemption is sound for
// callers - every contract call is taken to havoc it.

func fieldsPath(verif string) string { return filepath.Join(verif, "props", "fields.json") }

func (e *Engine) writeFieldsBaseline(verif string) error {
	m := map[string][]string{}
	if raw, err := os.ReadFile(fieldsPath(verif)); err == nil {
		json.Unmarshal(raw, &m)
	}
	tc := newTypeCtx()
	for _, p := range e.prog.AllPackages() {
		if !strings.HasPrefix(p.Pkg.Path(), "gitlab.com/gomidi/midi/v2") {
			continue
		}
		sc := p.Pkg.Scope()
		for _, n := range sc.Names() {
			tn, ok := sc.Lookup(n).(*types.TypeName)
			if !ok {
				continue
			}
			st, ok := tn.Type().Underlying().(*types.Struct)
			if !ok {
				continue
			}
			var fs []string
			for i := 0; i < st.NumFields(); i++ {
				fs = append(fs, st.Field(i).Name())
			}
			m["S_"+tc.typeName(tn.Type())] = fs
		}
	}
	raw, _ := json.MarshalIndent(m, "", " ")
	return os.WriteFile(fieldsPath(verif), append(raw, '\n'), 0o644)
}

func (e *Engine) loadFieldsBaseline(verif string) {
	raw, err := os.ReadFile(fieldsPath(verif))
	if err != nil {
		return
	}
	m := map[string][]string{}
	if json.Unmarshal(raw, &m) != nil {
		return
	}
	e.baseFields = map[string]map[string]bool{}
	for k, fs := range m {
		e.baseFields[k] = map[string]bool{}
		for _, f := range fs {
			e.baseFields[k][f] = true
		}
	}
	e.newFieldHeaps = map[string]bool{}
}

// noteFieldHeap records whether the heap of field f of struct sn is a field added after the baseline.
func (e *Engine) noteFieldHeap(hn, sn, f string) {
	if e.baseFields == nil {
		return
	}
	if fs, ok := e.baseFields[sn]; ok && !fs[f] {
		e.newFieldHeaps[hn] = true
	}
}
