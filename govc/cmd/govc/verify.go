package main

import (
	"os"
	"fmt"
	"go/types"
	"sort"
	"strings"

	"golang.org/x/tools/go/ssa"
	"golang.org/x/tools/go/ssa/ssautil"
)

func (e *Engine) newUnit(name string) *Unit {
	return &Unit{eng: e, tc: e.tcProto, name: name, decl: map[string]bool{}, nonNil: map[string]bool{}}
}

func (e *Engine) findFunc(key string) *ssa.Function {
	if e.funcIndex == nil {
		e.funcIndex = map[string]*ssa.Function{}
		for fn := range ssautil.AllFunctions(e.prog) {
			if fn.Package() == nil {
				continue
			}
			if !strings.HasPrefix(fn.Package().Pkg.Path(), "gitlab.com/gomidi/midi/v2") {
				continue
			}
			if fn.Synthetic != "" && !strings.Contains(fn.Name(), "$") {
				continue
			}
			e.funcIndex[funcKey(fn)] = fn
		}
	}
	return e.funcIndex[key]
}

// symbolic parameter for a top-level function
func (u *Unit) symParam(st *State, name string, t types.Type) Val {
	s := u.tc.sortOf(t)
	v := u.declare("in_"+name, s)
	switch s.K {
	case KSlice:
		u.assume(u.wfSlice(v))
		u.assume(lt(sliceRef(v), u.nextRef(st)))
	case KRef:
		u.assume(and(le(Term{"0", sInt}, v), lt(v, u.nextRef(st))))
	case KStr:
		u.assume(le(Term{"0", sInt}, Term{"(str-len " + v.S + ")", sInt}))
	case KErr, KFunc, KMap:
		u.assume(le(Term{"0", sInt}, v))
	case KInt:
		if !s.Signed {
			u.assume(le(Term{"0", sInt}, v))
		}
	case KIface:
		u.assumeLive(st, v)
	case KStruct:
		u.assumeLive(st, v)
	}
	u.probes = append(u.probes, modelProbe{name, v.S, len(u.items)})
	return v
}

// verifyFunc generates all obligations for one function under contract.
func (e *Engine) verifyFunc(key string) (u *Unit, err error) {
	fn := e.findFunc(key)
	if fn == nil {
		return nil, fmt.Errorf("contract-target-missing: function %s not found", key)
	}
	ct := e.contracts[key]
	u = e.newUnit(key)
	defer func() {
		if r := recover(); r != nil {
			if us, ok := r.(unsupported); ok {
				err = fmt.Errorf("out-of-reach: %s", us.msg)
				return
			}
			panic(r)
		}
	}()
	st := &State{heaps: map[string]Term{}}
	u.assume(lt(Term{"0", sInt}, u.nextRef(st)))
	var args []Val
	vars := map[string]Val{}
	for _, p := range fn.Params {
		v := u.symParam(st, p.Name(), p.Type())
		args = append(args, v)
		vars[p.Name()] = v
	}
	var bindings []Val
	for _, fv := range fn.FreeVars {
		v := u.symParam(st, fv.Name(), fv.Type())
		bindings = append(bindings, v)
		vars[fv.Name()] = &derefOnUse{ptr: v}
	}
	if fn.Signature.Recv() != nil && len(args) > 0 {
		if t, ok := args[0].(Term); ok && t.T.K == KRef {
			u.assume(not(eq(t, Term{"0", t.T})))
			u.note("implicit precondition: pointer receiver is not nil (checked at every call site under contract)")
		}
	}
	for i, b := range bindings {
		if t, ok := b.(Term); ok && t.T.K == KRef {
			u.assume(not(eq(t, Term{"0", t.T})))
			// captured variables are distinct cells
			for _, b2 := range bindings[:i] {
				if t2, ok := b2.(Term); ok && t2.T.K == KRef {
					u.assume(not(eq(t, t2)))
				}
			}
		}
	}
	pre := st.clone()
	env := &SpecEnv{u: u, vars: vars, st: pre, pkg: fn.Pkg, bound: map[string]Term{}, ctx: "requires of " + key}
	if ct != nil {
		for _, l := range ct.Uses {
			u.useLemma(l)
		}
		for _, r := range ct.Requires {
			u.assume(env.evalBool(r.X))
		}
	}
	u.curReach = mkBool(true)
	u.frameInit(ct, env, key)
	// vacuity guard: the preconditions are satisfiable
	cov := &Obligation{Name: "cover." + key + ".requires", Kind: "cover", Goal: mkBool(false), NItems: len(u.items), Fn: key, Cover: true, Blk: u.curBlk,
		Src: "preconditions and parameter invariants are satisfiable"}
	u.obls = append(u.obls, cov)

	u.topFn = fn
	u.curBlk = -1
	res, outSt, retc := u.execFunc(fn, args, bindings, st, mkBool(true), true, ct)
	u.markBlock(-2)
	if ct != nil && len(ct.Ensures) > 0 {
		if retc.S == "false" {
			return u, nil
		}
		pvars := map[string]Val{}
		for k, v := range vars {
			pvars[k] = v
		}
		rt := fn.Signature.Results()
		for i := 0; i < rt.Len(); i++ {
			if n := rt.At(i).Name(); n != "" && n != "_" {
				pvars[n] = res[i]
			}
			pvars[fmt.Sprintf("result%d", i)] = res[i]
		}
		if rt.Len() == 1 {
			pvars["result"] = res[0]
		}
		post := &SpecEnv{u: u, vars: pvars, st: outSt, old: pre, pkg: fn.Pkg, bound: map[string]Term{}, ctx: "ensures of " + key}
		for i, c := range ct.Ensures {
			t := post.evalGoal(c.X)
			u.oblige(key, "post", clauseName(c, i), retc, t, "ensures "+c.Src, c.Tag)
		}
		for i, r := range res {
			if t, ok := r.(Term); ok {
				u.probes = append(u.probes, modelProbe{fmt.Sprintf("result%d", i), t.S, len(u.items)})
			}
		}
	}
	// vacuity guard: some return is reachable
	if retc.S != "false" {
		cov2 := &Obligation{Name: "cover." + key + ".return", Kind: "cover", Goal: not(retc), NItems: len(u.items), Fn: key, Cover: true, Blk: u.curBlk,
			Src: "a normal return is reachable under the preconditions"}
		u.obls = append(u.obls, cov2)
	}
	return u, nil
}

// verifyLemma: a lemma is a closed formula over spec functions.
func (e *Engine) verifyLemma(name string) (u *Unit, err error) {
	ax := e.axioms[name]
	if ax == nil {
		return nil, fmt.Errorf("contract-target-missing: lemma %s not found", name)
	}
	u = e.newUnit("lemma." + name)
	defer func() {
		if r := recover(); r != nil {
			if us, ok := r.(unsupported); ok {
				err = fmt.Errorf("out-of-reach: %s", us.msg)
				return
			}
			panic(r)
		}
	}()
	for _, l := range ax.Uses {
		u.useLemma(l)
	}
	env := &SpecEnv{u: u, vars: map[string]Val{}, st: &State{heaps: map[string]Term{}}, pkg: ax.Pkg, bound: map[string]Term{}, ctx: "lemma " + name}
	if ax.Induct != "" {
		// lemma of the form  forall k int, ... :: P  proved by induction on k >= 0:
		//   base: P[k:=0]    step: k >= 0 && P[k] ==> P[k+1]   (other binders stay universally quantified)
		x := ax.X
		if x.Op != "forall" {
			return nil, fmt.Errorf("lemma %s: induct needs a forall", name)
		}
		idx := -1
		for i, b := range x.BindNames {
			if b == strings.TrimSuffix(ax.Induct, "*") {
				idx = i
			}
		}
		if idx < 0 {
			return nil, fmt.Errorf("lemma %s: induction variable %s not bound", name, ax.Induct)
		}
		indVar := strings.TrimSuffix(ax.Induct, "*")
		rest := &SX{Op: "forall", Args: x.Args}
		for i := range x.BindNames {
			if i != idx {
				rest.BindNames = append(rest.BindNames, x.BindNames[i])
				rest.BindTypes = append(rest.BindTypes, x.BindTypes[i])
			}
		}
		general := strings.HasSuffix(ax.Induct, "*")
		consts := map[string]Term{}
		if !general {
			// simple induction: the other binders are fixed constants shared by hypothesis and goal
			for i, bn := range rest.BindNames {
				consts[bn] = u.declare("ind_"+bn, e.sortByName(u.tc, rest.BindTypes[i], ax.Pkg))
			}
		}
		body := func(k Term) Term {
			n := *env
			n.bound = map[string]Term{indVar: k}
			if len(rest.BindNames) == 0 {
				return n.evalBool(x.Args[0])
			}
			if !general {
				for bn, c := range consts {
					n.bound[bn] = c
				}
				return n.evalBool(x.Args[0])
			}
			return n.evalBool(rest)
		}
		base := body(Term{"0", sInt})
		nb := len(u.items)
		u.oblige("lemma."+name, "base", "", mkBool(true), base, ax.Src, "")
		u.items = u.items[:nb] // the base case is not an assumption of the step
		k := u.declare("ind_k", sInt)
		u.assume(le(Term{"0", sInt}, k))
		u.assume(body(k))
		step := body(Term{"(+ " + k.S + " 1)", sInt})
		u.oblige("lemma."+name, "step", "", mkBool(true), step, ax.Src, "")
		return u, nil
	}
	t := env.evalBool(ax.X)
	u.oblige("lemma."+name, "lemma", "", mkBool(true), t, ax.Src, "")
	return u, nil
}

// script renders the SMT-LIB text for one obligation.
func (u *Unit) script(o *Obligation, wantModel bool) string {
	var sb strings.Builder
	sb.WriteString("(set-option :produce-models true)\n")
	sb.WriteString("(set-logic ALL)\n")
	sb.WriteString(preamble)
	sb.WriteString(u.tc.structDecls())
	if u.usedSpec["shift8"] && u.concrete {
		sb.WriteString("(define-fun shift8 ((a (Array Int (_ BitVec 8))) (o Int)) (Array Int (_ BitVec 8)) (lambda ((i Int)) (select a (+ o i))))\n")
	} else if u.usedSpec["shift8"] {
		sb.WriteString("(declare-fun shift8 ((Array Int (_ BitVec 8)) Int) (Array Int (_ BitVec 8)))\n")
		sb.WriteString("(assert (forall ((a (Array Int (_ BitVec 8))) (o Int) (i Int)) (! (= (select (shift8 a o) i) (select a (+ o i))) :pattern ((select (shift8 a o) i)))))\n")
	}
	for _, w := range []int{8, 16, 32, 64} {
		if u.usedSpec[fmt.Sprintf("f2bv%d", w)] {
			sb.WriteString(fmt.Sprintf("(declare-fun f2bv%d (Real) (_ BitVec %d))\n", w, w))
		}
	}
	sb.WriteString(u.specPreamble(nil))
	// assertions made in blocks from which the obligation's block cannot be reached are left out (they are
	// guarded by the reach conditions of those blocks and cannot contribute; leaving them out only weakens
	// the hypotheses). Declarations and definitions are always kept.
	var anc map[int]bool
	slice := os.Getenv("GOVC_NOSLICE") == "" && u.topFn != nil && o.Blk >= 0
	if slice {
		anc = u.ancestors(o.Blk)
	}
	mi := 0
	cur := -1
	for i, it := range u.items[:o.NItems] {
		for mi < len(u.blkMarks) && u.blkMarks[mi].at <= i {
			cur = u.blkMarks[mi].blk
			mi++
		}
		if slice && cur >= 0 && !anc[cur] && strings.HasPrefix(it, "(assert") {
			continue
		}
		sb.WriteString(it)
		sb.WriteString("\n")
	}
	sb.WriteString("(assert (not " + o.Goal.S + "))\n")
	sb.WriteString("(check-sat)\n")
	if wantModel {
		var ps []string
		for _, p := range u.probes {
			if p.At <= o.NItems {
				ps = append(ps, p.Term)
			}
		}
		if len(ps) > 0 {
			sb.WriteString("(get-value (" + strings.Join(ps, " ") + "))\n")
		}
	}
	return sb.String()
}

func sortedObls(os []*Obligation) []*Obligation {
	out := append([]*Obligation(nil), os...)
	sort.SliceStable(out, func(i, j int) bool { return out[i].Name < out[j].Name })
	return out
}

var _ = ssa.Function{}
