package main

import (
	"fmt"
	"os"
	"go/types"
	"strings"

	"golang.org/x/tools/go/ssa"
)

// ---------------------------------------------------------------- values

type Val interface{}

// PtrPath is a pointer that is not an SMT value: a field of a struct behind a pointer,
// an element of an array/slice, or a global variable.
type PtrPath struct {
	Kind   string // field | elem | global
	Base   Val    // field: pointer to the struct (Term KRef or *PtrPath); elem: pointer-to-array (Term/*PtrPath) or slice Term
	Field  int
	Struct types.Type // struct type for field
	Idx    Term
	ElemT  types.Type // element type for elem
	Global *ssa.Global
}

type Closure struct {
	Fn       *ssa.Function
	Bindings []Val
}

type FuncRef struct{ Fn *ssa.Function }

type Tuple []Val

// ---------------------------------------------------------------- state

type State struct {
	heaps map[string]Term
}

func (s *State) clone() *State {
	n := &State{heaps: make(map[string]Term, len(s.heaps))}
	for k, v := range s.heaps {
		n.heaps[k] = v
	}
	return n
}

// ---------------------------------------------------------------- unit

type Obligation struct {
	Blk     int  // block of the top-level function in which the obligation arises (-2: after the body, sees everything)
	Name    string
	Kind    string
	Goal    Term // complete goal, including the reachability guard
	NItems  int  // number of unit items visible to this obligation
	Src     string
	Tag     string // [P:Cxx] / [H] tag of the clause, if any
	Fn      string
	Cover   bool // must be SAT (vacuity guard)
	Result  string
	Solver  string
	Secs    float64
	Model   string
	Script  string
	Inputs  []modelProbe
	Comment string
	scriptText string
	candText   string
	Candidate  string // quantifier-free weakening that has a model (to be confirmed by replay)
}

type modelProbe struct {
	Name string
	Term string
	At   int // number of unit items that must be visible for the term to be defined
}

type Unit struct {
	wfSeen map[string]bool
	liveDepth int
	blkMarks []blkMark      // (item index, block of the top-level function) in emission order
	curBlk   int            // block of the top-level function being executed (-1 before / outside)
	topFn    *ssa.Function  // the function under verification (for the ancestor relation of its blocks)
	anc      map[int]map[int]bool
	toIntSeen []Term // fixed-width terms that have been converted to integers (for congruence facts)
	intOf    [][2]Term // (integer value, fixed-width operand) of the conversions the program performs
	frameOn      bool
	frameOff     int // >0: writes are not checked (copy-in of interior pointers etc.)
	frameKey     string
	frameAllowed []frameEntry
	frameGhost   map[string]bool
	frameSeen    map[string]bool
	curReach     Term // reach condition of the instruction being executed
	zextOf map[string]Term // names defined as zero extensions -> the narrow operand
	eng    *Engine
	tc     *typeCtx
	name   string
	items  []string
	obls   []*Obligation
	ctr    int
	decl   map[string]bool
	oblCtr map[string]int
	notes  []string // assumptions / abstractions met while encoding
	noteSet map[string]bool
	depth  int
	probes []modelProbe
	usedLemmas map[string]bool
	nonNil map[string]bool
	covCtr int
	assumedText map[string]bool
	heapNames map[string]bool // heaps this unit has touched (hermetic mod-set computation)
	ifaceDyn map[string]dynInfo
	pendingLive [][2]string
	callOrd map[string]int
	usedSpec map[string]bool
	bridge map[string]bool
	concrete bool // ground evaluation: opaque spec functions are plain definitions
	sched [][2]string // (k, err) result terms of calls on abstract streams
}

func (u *Unit) useSpec(n string) {
	if u.usedSpec == nil {
		u.usedSpec = map[string]bool{}
	}
	u.usedSpec[n] = true
}

func (u *Unit) fresh(prefix string) string {
	u.ctr++
	return fmt.Sprintf("%s!%d", sanitize(prefix), u.ctr)
}

func (u *Unit) note(format string, a ...interface{}) {
	s := fmt.Sprintf(format, a...)
	if u.noteSet == nil {
		u.noteSet = map[string]bool{}
	}
	if !u.noteSet[s] {
		u.noteSet[s] = true
		u.notes = append(u.notes, s)
	}
}

// define introduces a named abbreviation for t (keeps query size linear).
func (u *Unit) define(prefix string, t Term) Term {
	if len(t.S) < 24 && !strings.Contains(t.S, " ") {
		return t
	}
	n := u.fresh(prefix)
	u.defItem(n, u.tc.smt(t.T), t.S)
	return Term{n, t.T}
}

// defItem introduces name = body. Bodies containing ite are introduced as constants with a defining
// equation (define-fun macros are expanded inside quantifier patterns, where ite conditions are illegal).
func (u *Unit) defItem(name, srt, body string) {
	if strings.Contains(body, "(ite ") {
		u.items = append(u.items, fmt.Sprintf("(declare-const %s %s)", name, srt), fmt.Sprintf("(assert (= %s %s))", name, body))
		return
	}
	u.items = append(u.items, fmt.Sprintf("(define-fun %s () %s %s)", name, srt, body))
}

// declare introduces an unconstrained constant.
func (u *Unit) declare(prefix string, s *Sort) Term {
	n := u.fresh(prefix)
	u.items = append(u.items, fmt.Sprintf("(declare-const %s %s)", n, u.tc.smt(s)))
	return Term{n, s}
}

func (u *Unit) assume(t Term) {
	if t.S == "true" {
		return
	}
	u.items = append(u.items, "(assert "+t.S+")")
}

func (u *Unit) oblige(fn, kind, detail string, guard, prop Term, src, tag string) *Obligation {
	goal := implies(guard, prop)
	base := fn + "#" + kind
	if detail != "" {
		base += "." + detail
	}
	if u.oblCtr == nil {
		u.oblCtr = map[string]int{}
	}
	n := u.oblCtr[base]
	u.oblCtr[base] = n + 1
	name := base
	if n > 0 || strings.HasPrefix(kind, "safe") || kind == "pre" {
		name = fmt.Sprintf("%s.%d", base, n)
	}
	o := &Obligation{Name: name, Kind: kind, Goal: goal, NItems: len(u.items), Src: src, Tag: tag, Fn: fn, Blk: u.curBlk}
	if goal.S != "true" {
		u.obls = append(u.obls, o)
	} else {
		o.Result = "trivial"
		u.obls = append(u.obls, o)
	}
	// later code may rely on it (a frame obligation is a side condition that nothing later depends on; not
	// assuming it keeps a violated frame from making the rest of the function look unreachable)
	if kind != "frame" {
		u.assume(goal)
	}
	return o
}

// ---------------------------------------------------------------- heaps

func (u *Unit) heapSort(name string) string {
	// reconstructed from registered info
	return u.eng.heapSorts[name]
}

func (u *Unit) heap(st *State, name, smtSort string) Term {
	if t, ok := st.heaps[name]; ok {
		return t
	}
	init := sanitize(name) + "!init"
	if !u.decl[init] {
		u.decl[init] = true
		u.items = append(u.items, fmt.Sprintf("(declare-const %s %s)", init, smtSort))
		u.liveAxiom(name, init, sanitize("G.nextRef")+"!init")
	}
	u.eng.heapSorts[name] = smtSort
	if u.heapNames == nil {
		u.heapNames = map[string]bool{}
	}
	u.heapNames[name] = true
	t := Term{init, nil}
	st.heaps[name] = t
	return t
}

func (u *Unit) setHeap(st *State, name string, smtSort string, t Term) {
	u.eng.heapSorts[name] = smtSort
	n := u.fresh(name)
	u.defItem(n, smtSort, t.S)
	st.heaps[name] = Term{n, nil}
}

func (u *Unit) havocHeap(st *State, name string) Term {
	srt := u.eng.heapSorts[name]
	if srt == "" {
		panic("havocHeap: unknown heap " + name)
	}
	n := u.fresh(name + "_hv")
	u.items = append(u.items, fmt.Sprintf("(declare-const %s %s)", n, srt))
	st.heaps[name] = Term{n, nil}
	u.pendingLive = append(u.pendingLive, [2]string{name, n})
	return st.heaps[name]
}

// liveAxiom: heap well-formedness - every reference stored in (this version of) a heap denotes an object
// that exists, i.e. lies below the allocation frontier of that moment.
func (u *Unit) liveAxiom(name, version, frontier string) {
	k, ok := u.eng.heapKinds[name]
	if !ok || os.Getenv("GOVC_NOLIVE") != "" {
		return
	}
	if !u.decl[frontier] && strings.HasSuffix(frontier, "!init") {
		u.decl[frontier] = true
		u.items = append(u.items, fmt.Sprintf("(declare-const %s Int)", frontier))
	}
	nested := strings.HasPrefix(name, "E.")
	selq := "(select " + version + " q_r)"
	vars := "((q_r Int))"
	if nested {
		selq = "(select (select " + version + " q_r) q_i)"
		vars = "((q_r Int) (q_i Int))"
	}
	var body string
	switch k {
	case KRef:
		body = fmt.Sprintf("(< %s %s)", selq, frontier)
	case KSlice:
		body = fmt.Sprintf("(< (s-ref %s) %s)", selq, frontier)
	case KIface:
		// (the nil interface value carries no payload)
		body = fmt.Sprintf("(and (< (i-val %[1]s) %[2]s) (=> (= (i-tag %[1]s) 0) (= (i-val %[1]s) 0)))", selq, frontier)
	case KStruct:
		// references held in the fields of a struct value stored in the heap
		st := u.eng.heapStructs[name]
		if st == nil {
			return
		}
		sn := u.tc.structName(st)
		stt := st.Underlying().(*types.Struct)
		var parts []string
		for i := 0; i < stt.NumFields(); i++ {
			fs := u.tc.sortOf(stt.Field(i).Type())
			fsel := "(" + u.tc.fieldSel(sn, i) + " " + selq + ")"
			switch fs.K {
			case KRef:
				parts = append(parts, fmt.Sprintf("(< %s %s)", fsel, frontier))
			case KSlice:
				parts = append(parts, fmt.Sprintf("(< (s-ref %s) %s)", fsel, frontier))
			case KIface:
				parts = append(parts, fmt.Sprintf("(< (i-val %[1]s) %[2]s) (=> (= (i-tag %[1]s) 0) (= (i-val %[1]s) 0))", fsel, frontier))
			}
		}
		if len(parts) == 0 {
			return
		}
		body = "(and " + strings.Join(parts, " ") + ")"
		if len(parts) == 1 {
			body = parts[0]
		}
	default:
		return
	}
	u.items = append(u.items, fmt.Sprintf("(assert (forall %s (! %s :pattern (%s))))", vars, body, selq))
}

func (u *Unit) fieldHeapName(structT types.Type, field int) (string, string, *Sort) {
	sn := u.tc.structName(structT)
	st := u.tc.structNames[sn]
	fs := u.tc.sortOf(st.Field(field).Type())
	u.eng.noteFieldHeap("H."+sn+"."+st.Field(field).Name(), sn, st.Field(field).Name())
	u.eng.heapKinds["H."+sn+"."+st.Field(field).Name()] = fs.K
	if fs.K == KStruct {
		u.eng.heapStructs["H."+sn+"."+st.Field(field).Name()] = st.Field(field).Type()
	}
	return "H." + sn + "." + st.Field(field).Name(), "(Array Int " + u.tc.smt(fs) + ")", fs
}

func (u *Unit) elemHeapName(elemT types.Type) (string, string, *Sort) {
	es := u.tc.sortOf(elemT)
	u.eng.heapKinds["E."+u.tc.typeName(elemT)] = es.K
	if es.K == KStruct {
		u.eng.heapStructs["E."+u.tc.typeName(elemT)] = elemT
	}
	return "E." + u.tc.typeName(elemT), "(Array Int (Array Int " + u.tc.smt(es) + "))", es
}

func (u *Unit) boxHeapName(t types.Type) (string, string, *Sort) {
	s := u.tc.sortOf(t)
	u.eng.heapKinds["B."+u.tc.typeName(t)] = s.K
	return "B." + u.tc.typeName(t), "(Array Int " + u.tc.smt(s) + ")", s
}

func (u *Unit) ghost(st *State, name string, s *Sort) Term {
	t := u.heap(st, "G."+name, u.tc.smt(s))
	return Term{t.S, s}
}

func (u *Unit) setGhost(st *State, name string, v Term) {
	u.setHeap(st, "G."+name, u.tc.smt(v.T), v)
}

func (u *Unit) nextRef(st *State) Term {
	return u.ghost(st, "nextRef", sInt)
}

// alloc returns a fresh reference, distinct from every reference that exists so far.
func (u *Unit) alloc(st *State, goT types.Type) Term {
	nr := u.nextRef(st)
	r := u.define("ref", Term{nr.S, &Sort{K: KRef, Go: goT}})
	u.setGhost(st, "nextRef", Term{"(+ " + nr.S + " 1)", sInt})
	u.nonNil[r.S] = true
	return Term{r.S, &Sort{K: KRef, Go: goT}}
}

func sel(a Term, i Term, s *Sort) Term {
	return Term{"(select " + a.S + " " + i.S + ")", s}
}

func sto(a Term, i Term, v Term) Term {
	return Term{"(store " + a.S + " " + i.S + " " + v.S + ")", a.T}
}

func sliceRef(s Term) Term { return Term{"(s-ref " + s.S + ")", sInt} }
func sliceOff(s Term) Term { return Term{"(s-off " + s.S + ")", sInt} }
func sliceLen(s Term) Term { return Term{"(s-len " + s.S + ")", sInt} }
func sliceCap(s Term) Term { return Term{"(s-cap " + s.S + ")", sInt} }

func add(a, b Term) Term {
	if b.S == "0" {
		return a
	}
	if a.S == "0" {
		return b
	}
	return Term{"(+ " + a.S + " " + b.S + ")", sInt}
}

func sub(a, b Term) Term {
	if b.S == "0" {
		return a
	}
	return Term{"(- " + a.S + " " + b.S + ")", sInt}
}

func le(a, b Term) Term { return Term{"(<= " + a.S + " " + b.S + ")", sBool} }
func lt(a, b Term) Term { return Term{"(< " + a.S + " " + b.S + ")", sBool} }

func mkSlice(u *Unit, ref, off, ln, cp Term, goT types.Type) Term {
	return Term{"(mk-slice " + ref.S + " " + off.S + " " + ln.S + " " + cp.S + ")", &Sort{K: KSlice, Go: goT}}
}

// ---------------------------------------------------------------- load / store

func (u *Unit) pointee(p Term) types.Type {
	pt, ok := p.T.Go.Underlying().(*types.Pointer)
	if !ok {
		panic(fmt.Sprintf("pointee: not a pointer sort: %v", p.T.Go))
	}
	return pt.Elem()
}

func (u *Unit) load(st *State, p Val) Term {
	switch p := p.(type) {
	case Term:
		if p.T.K != KRef {
			panic("load: not a ref: " + p.S)
		}
		el := u.pointee(p)
		switch eu := el.Underlying().(type) {
		case *types.Struct:
			sn := u.tc.structName(el)
			var parts []string
			for i := 0; i < eu.NumFields(); i++ {
				hn, hs, fs := u.fieldHeapName(el, i)
				parts = append(parts, sel(u.heap(st, hn, hs), p, fs).S)
			}
			if eu.NumFields() == 0 {
				parts = []string{"false"}
			}
			return Term{"(mk-" + sn + " " + strings.Join(parts, " ") + ")", u.tc.sortOf(el)}
		case *types.Array:
			hn, hs, _ := u.elemHeapName(eu.Elem())
			return sel(u.heap(st, hn, hs), p, u.tc.sortOf(el))
		default:
			hn, hs, s := u.boxHeapName(el)
			return sel(u.heap(st, hn, hs), p, s)
		}
	case *PtrPath:
		switch p.Kind {
		case "global":
			s := u.tc.sortOf(p.Global.Type().(*types.Pointer).Elem())
			return u.ghost(st, "glob."+p.Global.Pkg.Pkg.Name()+"."+p.Global.Name(), s)
		case "field":
			if b, ok := p.Base.(Term); ok {
				hn, hs, fs := u.fieldHeapName(p.Struct, p.Field)
				return sel(u.heap(st, hn, hs), b, fs)
			}
			sv := u.load(st, p.Base)
			sn := u.tc.structName(p.Struct)
			fs := u.tc.sortOf(u.tc.structNames[sn].Field(p.Field).Type())
			return Term{"(" + u.tc.fieldSel(sn, p.Field) + " " + sv.S + ")", fs}
		case "elem":
			es := u.tc.sortOf(p.ElemT)
			if b, ok := p.Base.(Term); ok {
				hn, hs, _ := u.elemHeapName(p.ElemT)
				h := u.heap(st, hn, hs)
				if b.T.K == KSlice {
					return sel(Term{"(select " + h.S + " (s-ref " + b.S + "))", nil}, add(sliceOff(b), p.Idx), es)
				}
				return sel(Term{"(select " + h.S + " " + b.S + ")", nil}, p.Idx, es)
			}
			av := u.load(st, p.Base)
			return sel(av, p.Idx, es)
		}
	}
	panic(fmt.Sprintf("load: unsupported pointer %T", p))
}

func (u *Unit) store(st *State, p Val, v Term) {
	switch p := p.(type) {
	case Term:
		el := u.pointee(p)
		switch eu := el.Underlying().(type) {
		case *types.Struct:
			sn := u.tc.structName(el)
			for i := 0; i < eu.NumFields(); i++ {
				hn, hs, fs := u.fieldHeapName(el, i)
				fv := Term{"(" + u.tc.fieldSel(sn, i) + " " + v.S + ")", fs}
				u.frameWrite(hn, p, nil, nil, "struct store")
				u.setHeap(st, hn, hs, sto(u.heap(st, hn, hs), p, fv))
			}
		case *types.Array:
			hn, hs, _ := u.elemHeapName(eu.Elem())
			u.frameWrite(hn, p, nil, nil, "array store")
			u.setHeap(st, hn, hs, sto(u.heap(st, hn, hs), p, v))
		default:
			hn, hs, _ := u.boxHeapName(el)
			u.frameWrite(hn, p, nil, nil, "store through pointer")
			u.setHeap(st, hn, hs, sto(u.heap(st, hn, hs), p, v))
		}
		return
	case *PtrPath:
		switch p.Kind {
		case "global":
			u.frameGhostWrite("glob." + p.Global.Pkg.Pkg.Name() + "." + p.Global.Name())
			u.setGhost(st, "glob."+p.Global.Pkg.Pkg.Name()+"."+p.Global.Name(), v)
			return
		case "field":
			if b, ok := p.Base.(Term); ok {
				hn, hs, _ := u.fieldHeapName(p.Struct, p.Field)
				u.frameWrite(hn, b, nil, nil, "field store")
				u.setHeap(st, hn, hs, sto(u.heap(st, hn, hs), b, v))
				return
			}
			sv := u.load(st, p.Base)
			sn := u.tc.structName(p.Struct)
			stt := u.tc.structNames[sn]
			var parts []string
			for i := 0; i < stt.NumFields(); i++ {
				if i == p.Field {
					parts = append(parts, v.S)
				} else {
					parts = append(parts, "("+u.tc.fieldSel(sn, i)+" "+sv.S+")")
				}
			}
			u.store(st, p.Base, Term{"(mk-" + sn + " " + strings.Join(parts, " ") + ")", sv.T})
			return
		case "elem":
			if b, ok := p.Base.(Term); ok {
				hn, hs, _ := u.elemHeapName(p.ElemT)
				h := u.heap(st, hn, hs)
				if b.T.K == KSlice {
					ref := sliceRef(b)
					inner := Term{"(select " + h.S + " " + ref.S + ")", nil}
					ai := add(sliceOff(b), p.Idx)
					ai1 := add(ai, Term{"1", sInt})
					u.frameWrite(hn, ref, &ai, &ai1, "element store")
					u.setHeap(st, hn, hs, sto(h, ref, sto(inner, add(sliceOff(b), p.Idx), v)))
				} else {
					inner := Term{"(select " + h.S + " " + b.S + ")", nil}
					ai1 := add(p.Idx, Term{"1", sInt})
					u.frameWrite(hn, b, &p.Idx, &ai1, "array element store")
					u.setHeap(st, hn, hs, sto(h, b, sto(inner, p.Idx, v)))
				}
				return
			}
			av := u.load(st, p.Base)
			u.store(st, p.Base, Term{sto(av, p.Idx, v).S, av.T})
			return
		}
	}
	panic(fmt.Sprintf("store: unsupported pointer %T", p))
}

// mergeStates merges the states of several incoming edges.
func (u *Unit) mergeStates(conds []Term, sts []*State) *State {
	if len(sts) == 1 {
		return sts[0].clone()
	}
	out := &State{heaps: map[string]Term{}}
	keys := map[string]bool{}
	for _, s := range sts {
		for k := range s.heaps {
			keys[k] = true
		}
	}
	for _, k := range sortedKeys(keys) {
		srt := u.eng.heapSorts[k]
		vals := make([]Term, len(sts))
		same := true
		for i, s := range sts {
			vals[i] = u.heap(s, k, srt)
			if vals[i].S != vals[0].S {
				same = false
			}
		}
		if same {
			out.heaps[k] = vals[0]
			continue
		}
		acc := vals[len(vals)-1]
		for i := len(vals) - 2; i >= 0; i-- {
			acc = Term{"(ite " + conds[i].S + " " + vals[i].S + " " + acc.S + ")", nil}
		}
		n := u.fresh(k + "_m")
		u.defItem(n, srt, acc.S)
		out.heaps[k] = Term{n, nil}
	}
	return out
}

type blkMark struct{ at, blk int }

// markBlock: from now on items belong to block b of the function under verification.
func (u *Unit) markBlock(b int) {
	u.curBlk = b
	u.blkMarks = append(u.blkMarks, blkMark{len(u.items), b})
}

// ancestors gives, for block b of the top function, the blocks from which b can be reached along forward edges
// (b included). An assertion made in any other block is irrelevant for an obligation that arises in b.
func (u *Unit) ancestors(b int) map[int]bool {
	if u.anc == nil {
		u.anc = map[int]map[int]bool{}
	}
	if a, ok := u.anc[b]; ok {
		return a
	}
	a := map[int]bool{}
	if u.topFn != nil && b >= 0 && b < len(u.topFn.Blocks) {
		var walk func(x *ssa.BasicBlock)
		walk = func(x *ssa.BasicBlock) {
			if a[x.Index] {
				return
			}
			a[x.Index] = true
			for _, p := range x.Preds {
				if isBackEdge(p, x) {
					continue
				}
				walk(p)
			}
		}
		walk(u.topFn.Blocks[b])
	}
	u.anc[b] = a
	return a
}
