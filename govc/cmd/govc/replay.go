package main

import (
	"go/token"
	"regexp"
	"encoding/json"
	"fmt"
	"go/types"
	"math/big"
	"os"
	"os/exec"
	"path/filepath"
	"sort"
	"strings"

	"golang.org/x/tools/go/ssa"
)

// Replay: the model of a failed obligation is turned into concrete inputs; the real function is run on
// them inside its own package (go test -overlay, nothing is written into /repo); the observed outputs
// are fed back into the failed clause, which is then evaluated by the solver on ground terms.
// A panic observed for a #safe obligation, or a clause that evaluates to false, confirms the violation.

type cval struct {
	kind    string // int bool bv real slice ptr struct str func err iface unsupported
	goT     types.Type
	i       *big.Int
	isNil   bool
	elems   []*cval
	fields  []*cval
	pointee *cval
	ref     int64
	off     int64
	cap     int64
	ln      int64
	varName string
}

type probeReq struct {
	term string
	into func(*sx)
}

type replayCtx struct {
	u       *Unit
	fn      *ssa.Function
	probes  []probeReq
	imports map[string]string
	pkg     *types.Package
	nextRef int64
	decls   []string
	ctr     int
	refVars map[string]string // "ptr:<ref>" -> go variable
	needReader bool
	script     string
	nilPrefs    []string // tags of interface values the harness can only build as nil
	unbuildable []string // non-nil interface values of types the harness cannot construct
	streamTerms [][2]string // (sn, spos) probe terms of the io.Reader inputs
}

const replayReader = `
type govcStep struct {
	k   int
	err int // 0 nil, 1 io.EOF, 2 fault
}

var govcFault = errors.New("govc injected fault")

// govcReader replays the Read schedule of the solver's counterexample; when the schedule is used up it
// behaves like an in-memory reader.
type govcReader struct {
	data    []byte
	pos     int
	sched   []govcStep
	faulted bool
	calls   int
}

func (r *govcReader) Read(p []byte) (int, error) {
	r.calls++
	if r.faulted {
		return 0, govcFault
	}
	k := len(p)
	var err error
	if len(r.sched) > 0 {
		st := r.sched[0]
		r.sched = r.sched[1:]
		k = st.k
		switch st.err {
		case 1:
			err = io.EOF
		case 2:
			err = govcFault
			r.faulted = true
		}
	}
	if k > len(p) {
		k = len(p)
	}
	if k > len(r.data)-r.pos {
		k = len(r.data) - r.pos
	}
	if k < 0 {
		k = 0
	}
	copy(p, r.data[r.pos:r.pos+k])
	r.pos += k
	if err == nil && k == 0 && len(p) > 0 {
		err = io.EOF
	}
	if err == io.EOF && r.pos < len(r.data) {
		err = nil
		if k == 0 && len(p) > 0 {
			n := copy(p, r.data[r.pos:r.pos+1])
			r.pos += n
			k = n
		}
	}
	return k, err
}
`

const replayElems = 160

func (rc *replayCtx) heapInit(name string) (string, bool) {
	init := sanitize(name) + "!init"
	return init, rc.u.decl[init] && strings.Contains(rc.script, "(declare-const "+init+" ")
}

// plan builds the probe list for a symbolic value of Go type t denoted by SMT term x.
func (rc *replayCtx) plan(x string, t types.Type, depth int) *cval {
	u := rc.u
	s := u.tc.sortOf(t)
	c := &cval{goT: t}
	switch s.K {
	case KBool:
		c.kind = "bool"
		rc.probes = append(rc.probes, probeReq{x, func(v *sx) { c.i, _ = sxInt(v) }})
	case KInt:
		c.kind = "int"
		rc.probes = append(rc.probes, probeReq{x, func(v *sx) { c.i, _ = sxInt(v) }})
	case KBV:
		c.kind = "bv"
		rc.probes = append(rc.probes, probeReq{x, func(v *sx) { c.i, _ = sxInt(v) }})
	case KErr:
		c.kind = "err"
		rc.probes = append(rc.probes, probeReq{x, func(v *sx) { c.i, _ = sxInt(v) }})
	case KFunc:
		c.kind = "func"
		rc.probes = append(rc.probes, probeReq{x, func(v *sx) { c.i, _ = sxInt(v) }})
	case KSlice:
		c.kind = "slice"
		el := t.Underlying().(*types.Slice).Elem()
		rc.probes = append(rc.probes, probeReq{"(s-ref " + x + ")", func(v *sx) {
			r, _ := sxInt(v)
			if r != nil {
				c.ref = r.Int64()
			}
		}})
		rc.probes = append(rc.probes, probeReq{"(s-off " + x + ")", func(v *sx) {
			r, _ := sxInt(v)
			if r != nil && r.IsInt64() {
				c.off = r.Int64()
			}
		}})
		rc.probes = append(rc.probes, probeReq{"(s-len " + x + ")", func(v *sx) {
			r, _ := sxInt(v)
			if r != nil && r.IsInt64() {
				c.ln = r.Int64()
			} else {
				c.ln = 1 << 40
			}
		}})
		rc.probes = append(rc.probes, probeReq{"(s-cap " + x + ")", func(v *sx) {
			r, _ := sxInt(v)
			if r != nil && r.IsInt64() {
				c.cap = r.Int64()
			} else {
				c.cap = 1 << 40
			}
		}})
		hn, _, _ := u.elemHeapName(el)
		if init, ok := rc.heapInit(hn); ok && depth < 3 {
			for i := 0; i < replayElems; i++ {
				ec := rc.plan(fmt.Sprintf("(select (select %s (s-ref %s)) (+ (s-off %s) %d))", init, x, x, i), el, depth+1)
				c.elems = append(c.elems, ec)
			}
		}
	case KStr:
		c.kind = "str"
		rc.probes = append(rc.probes, probeReq{"(str-len " + x + ")", func(v *sx) {
			r, _ := sxInt(v)
			if r != nil && r.IsInt64() {
				c.ln = r.Int64()
			}
		}})
		for i := 0; i < replayElems; i++ {
			ec := &cval{kind: "bv", goT: types.Typ[types.Uint8]}
			rc.probes = append(rc.probes, probeReq{fmt.Sprintf("(select (str-arr %s) %d)", x, i), func(v *sx) { ec.i, _ = sxInt(v) }})
			c.elems = append(c.elems, ec)
		}
	case KRef:
		c.kind = "ptr"
		rc.probes = append(rc.probes, probeReq{x, func(v *sx) {
			r, _ := sxInt(v)
			if r != nil {
				c.ref = r.Int64()
				c.isNil = r.Sign() == 0
			}
		}})
		pt, ok := t.Underlying().(*types.Pointer)
		if !ok || depth >= 3 {
			c.kind = "unsupported"
			return c
		}
		el := pt.Elem()
		switch eu := el.Underlying().(type) {
		case *types.Struct:
			pc := &cval{kind: "struct", goT: el}
			for i := 0; i < eu.NumFields(); i++ {
				hn, _, fs := u.fieldHeapName(el, i)
				if init, ok := rc.heapInit(hn); ok {
					pc.fields = append(pc.fields, rc.plan(fmt.Sprintf("(select %s %s)", init, x), eu.Field(i).Type(), depth+1))
				} else {
					pc.fields = append(pc.fields, rc.zeroC(eu.Field(i).Type(), fs))
				}
			}
			c.pointee = pc
		case *types.Array:
			c.kind = "unsupported"
		default:
			hn, _, bs := u.boxHeapName(el)
			if init, ok := rc.heapInit(hn); ok {
				c.pointee = rc.plan(fmt.Sprintf("(select %s %s)", init, x), el, depth+1)
			} else {
				c.pointee = rc.zeroC(el, bs)
			}
		}
	case KStruct:
		c.kind = "struct"
		st := t.Underlying().(*types.Struct)
		sn := u.tc.structName(t)
		for i := 0; i < st.NumFields(); i++ {
			c.fields = append(c.fields, rc.plan("("+u.tc.fieldSel(sn, i)+" "+x+")", st.Field(i).Type(), depth+1))
		}
	case KIface:
		if ts := types.TypeString(t, nil); strings.HasSuffix(ts, "/internal/runningstatus.Reader") || strings.HasSuffix(ts, "/internal/runningstatus.SMFWriter") {
			// the running-status helpers of the library: built with their constructor, the status is set by
			// feeding them a status byte
			c.kind = "rstatus"
			c.i = big.NewInt(0)
			rc.probes = append(rc.probes, probeReq{"(i-tag " + x + ")", func(v *sx) {
				r, _ := sxInt(v)
				c.isNil = r == nil || r.Sign() == 0
				if r != nil {
					c.ref = r.Int64()
				}
			}})
			rsPkg := u.eng.pkgByName["runningstatus"]
			if rsPkg != nil {
				impl := "smfreader"
				if strings.HasSuffix(ts, "SMFWriter") {
					impl = "smfwriter"
				}
				if obj := rsPkg.Pkg.Scope().Lookup(impl); obj != nil {
					c.cap = int64(u.eng.typeTag(types.NewPointer(obj.Type())))
					st := obj.Type().Underlying().(*types.Struct)
					hn, _, _ := u.fieldHeapName(obj.Type(), 0)
					if init, ok := rc.heapInit(hn); ok {
						term := "(select " + init + " (i-val " + x + "))"
						if impl == "smfreader" {
							// smfreader{reader{status}}
							inner := st.Field(0).Type()
							term = "(" + u.tc.fieldSel(u.tc.structName(inner), 0) + " " + term + ")"
						}
						rc.probes = append(rc.probes, probeReq{term, func(v *sx) {
							if r, ok := sxInt(v); ok {
								c.i = r
							}
						}})
					}
				}
			}
			return c
		}
		if types.TypeString(t, nil) != "io.Reader" {
			c.kind = "unsupported"
			rc.nilPrefs = append(rc.nilPrefs, "(i-tag "+x+")")
			// a non-nil value of an interface type the harness cannot build makes the model unusable
			rc.probes = append(rc.probes, probeReq{"(i-tag " + x + ")", func(v *sx) {
				if r, _ := sxInt(v); r != nil && r.Sign() != 0 {
					rc.unbuildable = append(rc.unbuildable, types.TypeString(t, nil))
				}
			}})
			return c
		}
		c.kind = "stream"
		id := "(i-val " + x + ")"
		rc.probes = append(rc.probes, probeReq{"(i-tag " + x + ")", func(v *sx) {
			r, _ := sxInt(v)
			c.isNil = r == nil || r.Sign() == 0
		}})
		gf := func(name string) string {
			init := sanitize("GF."+name) + "!init"
			if u.decl[init] && strings.Contains(rc.script, "(declare-const "+init+" ") {
				return "(select " + init + " " + id + ")"
			}
			return ""
		}
		if t, sp := gf("sn"), gf("spos"); t != "" && sp != "" {
			rc.streamTerms = append(rc.streamTerms, [2]string{t, sp})
		}
		if t := gf("sn"); t != "" {
			rc.probes = append(rc.probes, probeReq{t, func(v *sx) {
				if r, ok := sxInt(v); ok && r.IsInt64() {
					c.ln = r.Int64()
				} else {
					c.ln = 1 << 40
				}
			}})
		}
		if t := gf("spos"); t != "" {
			rc.probes = append(rc.probes, probeReq{t, func(v *sx) {
				if r, ok := sxInt(v); ok && r.IsInt64() {
					c.off = r.Int64()
				}
			}})
		}
		if t := gf("sfault"); t != "" {
			rc.probes = append(rc.probes, probeReq{t, func(v *sx) {
				c.i, _ = sxInt(v)
			}})
		}
		if t := gf("sdata"); t != "" {
			sp := gf("spos")
			for i := 0; i < 2*replayElems; i++ {
				ec := &cval{kind: "bv", goT: types.Typ[types.Uint8]}
				rc.probes = append(rc.probes, probeReq{fmt.Sprintf("(select %s (+ %s %d))", t, sp, i), func(v *sx) { ec.i, _ = sxInt(v) }})
				c.elems = append(c.elems, ec)
			}
		}
		// the schedule: results of the Read calls made on the abstract stream, in order
		for _, sc := range u.sched {
			st := &cval{kind: "step"}
			k := &cval{kind: "int"}
			e := &cval{kind: "err"}
			rc.probes = append(rc.probes, probeReq{sc[0], func(v *sx) { k.i, _ = sxInt(v) }})
			rc.probes = append(rc.probes, probeReq{sc[1], func(v *sx) { e.i, _ = sxInt(v) }})
			st.fields = []*cval{k, e}
			c.fields = append(c.fields, st)
		}
	case KArray:
		at := t.Underlying().(*types.Array)
		if at.Len() > 32 {
			c.kind = "unsupported"
			return c
		}
		c.kind = "array"
		for i := int64(0); i < at.Len(); i++ {
			c.elems = append(c.elems, rc.plan(fmt.Sprintf("(select %s %d)", x, i), at.Elem(), depth+1))
		}
	case KReal:
		c.kind = "real"
		rc.probes = append(rc.probes, probeReq{x, func(v *sx) { c.varName = v.String() }})
	default:
		c.kind = "unsupported"
	}
	return c
}

func (rc *replayCtx) zeroC(t types.Type, s *Sort) *cval {
	c := &cval{goT: t, i: big.NewInt(0), isNil: true}
	switch s.K {
	case KBool:
		c.kind = "bool"
	case KInt:
		c.kind = "int"
	case KBV:
		c.kind = "bv"
	case KErr:
		c.kind = "err"
	case KFunc:
		c.kind = "func"
	case KSlice:
		c.kind = "slice"
	case KStr:
		c.kind = "str"
	case KRef:
		c.kind = "ptr"
	case KStruct:
		c.kind = "struct"
		st := t.Underlying().(*types.Struct)
		for i := 0; i < st.NumFields(); i++ {
			c.fields = append(c.fields, rc.zeroC(st.Field(i).Type(), rc.u.tc.sortOf(st.Field(i).Type())))
		}
	default:
		c.kind = "unsupported"
	}
	return c
}

func (rc *replayCtx) typeStr(t types.Type) string {
	return types.TypeString(t, func(p *types.Package) string {
		if p == rc.pkg {
			return ""
		}
		rc.imports[p.Path()] = p.Name()
		return p.Name()
	})
}

func (rc *replayCtx) tmp(prefix string) string {
	rc.ctr++
	return fmt.Sprintf("%s%d", prefix, rc.ctr)
}

func signedVal(v *big.Int, s *Sort) *big.Int {
	if v == nil {
		return big.NewInt(0)
	}
	if s.K == KBV && s.Signed && v.Bit(s.W-1) == 1 {
		return new(big.Int).Sub(v, new(big.Int).Lsh(big.NewInt(1), uint(s.W)))
	}
	return v
}

// goExpr returns a Go expression that builds the concrete value (emitting declarations as needed).
func (rc *replayCtx) goExpr(c *cval) (string, error) {
	s := rc.u.tc.sortOf(c.goT)
	switch c.kind {
	case "bool":
		if c.i != nil && c.i.Sign() != 0 {
			return rc.typeStr(c.goT) + "(true)", nil
		}
		return rc.typeStr(c.goT) + "(false)", nil
	case "int":
		if c.i == nil {
			return rc.typeStr(c.goT) + "(0)", nil
		}
		if !c.i.IsInt64() {
			return "", fmt.Errorf("integer input %s does not fit int64", c.i)
		}
		return fmt.Sprintf("%s(%s)", rc.typeStr(c.goT), c.i), nil
	case "bv":
		return fmt.Sprintf("%s(%s)", rc.typeStr(c.goT), signedVal(c.i, s)), nil
	case "str":
		if c.ln > replayElems {
			return "", fmt.Errorf("string input longer than %d", replayElems)
		}
		var bs []string
		for i := int64(0); i < c.ln; i++ {
			v := c.elems[i].i
			if v == nil {
				v = big.NewInt(0)
			}
			bs = append(bs, v.String())
		}
		return rc.typeStr(c.goT) + "([]byte{" + strings.Join(bs, ",") + "})", nil
	case "err":
		if c.i == nil || c.i.Sign() == 0 {
			return "error(nil)", nil
		}
		for name, id := range rc.u.eng.errIDs {
			if int64(id) == c.i.Int64() {
				// name is pkg.Var: drop the qualifier inside the package itself, import it otherwise
				if i := strings.Index(name, "."); i > 0 {
					pn := name[:i]
					if pn == rc.pkg.Name() {
						return name[i+1:], nil
					}
					if p := rc.u.eng.pkgByName[pn]; p != nil {
						rc.imports[p.Pkg.Path()] = pn
						if !token.IsExported(name[i+1:]) {
							rc.imports["errors"] = "errors"
							return `errors.New("govc replay error")`, nil
						}
					}
				}
				return name, nil
			}
		}
		rc.imports["errors"] = "errors"
		return `errors.New("govc replay error")`, nil
	case "func":
		if c.i == nil || c.i.Sign() == 0 {
			return "nil", nil
		}
		return rc.recorder(c.goT)
	case "slice":
		if c.ref == 0 {
			return rc.typeStr(c.goT) + "(nil)", nil
		}
		if c.ln < 0 || c.off < 0 {
			// not a well-formed slice value (unconstrained initial content of an output cell)
			return rc.typeStr(c.goT) + "(nil)", nil
		}
		if c.ln > replayElems {
			return "", fmt.Errorf("slice input of length %d exceeds the replay cap %d", c.ln, replayElems)
		}
		el := c.goT.Underlying().(*types.Slice).Elem()
		var es []string
		for i := int64(0); i < c.ln; i++ {
			if int(i) >= len(c.elems) {
				es = append(es, rc.zeroLit(el))
				continue
			}
			e, err := rc.goExpr(c.elems[i])
			if err != nil {
				return "", err
			}
			es = append(es, e)
		}
		extra := c.cap - c.ln
		if extra < 0 || extra > 64 {
			extra = 0
		}
		v := rc.tmp("s")
		rc.decls = append(rc.decls, fmt.Sprintf("%s := append(make([]%s, 0, %d), []%s{%s}...)", v, rc.typeStr(el), c.ln+extra, rc.typeStr(el), strings.Join(es, ", ")))
		c.varName = v
		return rc.typeStr(c.goT) + "(" + v + ")", nil
	case "ptr":
		if c.isNil || c.ref == 0 {
			return "(" + rc.typeStr(c.goT) + ")(nil)", nil
		}
		key := fmt.Sprintf("ptr:%s:%d", rc.typeStr(c.goT), c.ref)
		if v, ok := rc.refVars[key]; ok {
			c.varName = v
			return v, nil
		}
		if c.pointee == nil {
			return "", fmt.Errorf("pointer input of unsupported shape %s", c.goT)
		}
		pe, err := rc.goExpr(c.pointee)
		if err != nil {
			return "", err
		}
		v := rc.tmp("p")
		el := c.goT.Underlying().(*types.Pointer).Elem()
		rc.decls = append(rc.decls, fmt.Sprintf("%s := new(%s); *%s = %s", v, rc.typeStr(el), v, pe))
		rc.refVars[key] = v
		c.varName = v
		return v, nil
	case "array":
		var es []string
		for _, e := range c.elems {
			x, err := rc.goExpr(e)
			if err != nil {
				return "", err
			}
			es = append(es, x)
		}
		return rc.typeStr(c.goT) + "{" + strings.Join(es, ", ") + "}", nil
	case "stream":
		if c.isNil {
			return "io.Reader(nil)", nil
		}
		rc.imports["io"] = "io"
		rc.imports["errors"] = "errors"
		rem := c.ln - c.off
		if rem < 0 || rem > int64(len(c.elems)) {
			return "", fmt.Errorf("stream with %d remaining bytes exceeds the replay cap", rem)
		}
		var bs []string
		for i := int64(0); i < rem; i++ {
			v := c.elems[i].i
			if v == nil {
				v = big.NewInt(0)
			}
			bs = append(bs, v.String())
		}
		var steps []string
		for _, st := range c.fields {
			k, e := st.fields[0].i, st.fields[1].i
			if k == nil || !k.IsInt64() {
				k = big.NewInt(0)
			}
			ek := 0
			if e != nil && e.Sign() != 0 {
				ek = 2
				if int64(rc.u.eng.errIDs["io.EOF"]) == e.Int64() {
					ek = 1
				}
			}
			steps = append(steps, fmt.Sprintf("{%s, %d}", k, ek))
		}
		pre := 0
		if c.i != nil && c.i.Sign() != 0 {
			pre = 1
		}
		rc.needReader = true
		return fmt.Sprintf("io.Reader(&govcReader{data: []byte{%s}, sched: []govcStep{%s}, faulted: %d != 0})", strings.Join(bs, ","), strings.Join(steps, ", "), pre), nil
	case "rstatus":
		if c.isNil {
			return rc.zeroLit(c.goT), nil
		}
		if c.ref != c.cap {
			return "", fmt.Errorf("running-status helper of an unexpected dynamic type (tag %d)", c.ref)
		}
		rc.imports["gitlab.com/gomidi/midi/v2/internal/runningstatus"] = "runningstatus"
		if strings.HasSuffix(types.TypeString(c.goT, nil), "SMFWriter") {
			return fmt.Sprintf("func() runningstatus.SMFWriter { x := runningstatus.NewSMFWriter(); if %[1]d != 0 { x.Write([]byte{%[1]d, 0, 0}) }; return x }()", c.i.Int64()), nil
		}
		return fmt.Sprintf("func() runningstatus.Reader { x := runningstatus.NewSMFReader(); if %[1]d != 0 { x.Read(byte(%[1]d)) }; return x }()", c.i.Int64()), nil
	case "struct":
		st := c.goT.Underlying().(*types.Struct)
		var fs []string
		foreign := false
		if nt, ok := c.goT.(*types.Named); ok && nt.Obj().Pkg() != rc.pkg {
			foreign = true
		}
		for i, f := range c.fields {
			if f.kind == "unsupported" {
				continue
			}
			if foreign && !st.Field(i).Exported() {
				continue // cannot be set from here; stays at its zero value
			}
			e, err := rc.goExpr(f)
			if err != nil {
				return "", err
			}
			fs = append(fs, st.Field(i).Name()+": "+e)
		}
		return rc.typeStr(c.goT) + "{" + strings.Join(fs, ", ") + "}", nil
	}
	return "", fmt.Errorf("input of unsupported shape %s (%s)", c.goT, c.kind)
}

func (rc *replayCtx) zeroLit(t types.Type) string {
	return "*new(" + rc.typeStr(t) + ")"
}

// recorder builds a callback that records its arguments.
func (rc *replayCtx) recorder(t types.Type) (string, error) {
	sig, ok := t.Underlying().(*types.Signature)
	if !ok {
		return "", fmt.Errorf("function input of unsupported type")
	}
	var ps, enc []string
	for i := 0; i < sig.Params().Len(); i++ {
		ps = append(ps, fmt.Sprintf("a%d %s", i, rc.typeStr(sig.Params().At(i).Type())))
		enc = append(enc, fmt.Sprintf("govcEnc(a%d)", i))
	}
	if sig.Results().Len() > 0 {
		return "", fmt.Errorf("callback with results not supported in replay")
	}
	return fmt.Sprintf("func(%s) { govcLog = append(govcLog, []interface{}{%s}) }", strings.Join(ps, ", "), strings.Join(enc, ", ")), nil
}

const replayPrelude = `
var govcLog []interface{}

func govcEnc(x interface{}) interface{} { return govcEncV(reflect.ValueOf(x), 0) }

// govcEncP encodes the variable p points to, keeping its static type (an error or other interface variable is
// encoded as an interface value, with its dynamic type and error text)
func govcEncP(p interface{}) interface{} { return govcEncV(reflect.ValueOf(p).Elem(), 0) }

func govcEncV(v reflect.Value, d int) interface{} {
	if !v.IsValid() || d > 6 {
		return nil
	}
	switch v.Kind() {
	case reflect.Bool:
		return v.Bool()
	case reflect.Int, reflect.Int8, reflect.Int16, reflect.Int32, reflect.Int64:
		return fmt.Sprint(v.Int())
	case reflect.Uint, reflect.Uint8, reflect.Uint16, reflect.Uint32, reflect.Uint64, reflect.Uintptr:
		return fmt.Sprint(v.Uint())
	case reflect.Float32, reflect.Float64:
		return fmt.Sprintf("%b", v.Float())
	case reflect.String:
		return map[string]interface{}{"str": []byte(v.String())}
	case reflect.Slice:
		if v.IsNil() {
			return map[string]interface{}{"nil": true, "len": 0, "elems": []interface{}{}}
		}
		n := v.Len()
		es := make([]interface{}, 0, n)
		for i := 0; i < n && i < 4096; i++ {
			es = append(es, govcEncV(v.Index(i), d+1))
		}
		return map[string]interface{}{"nil": false, "len": n, "cap": v.Cap(), "elems": es}
	case reflect.Array:
		n := v.Len()
		es := make([]interface{}, 0, n)
		for i := 0; i < n; i++ {
			es = append(es, govcEncV(v.Index(i), d+1))
		}
		return map[string]interface{}{"array": es}
	case reflect.Ptr:
		if v.IsNil() {
			return map[string]interface{}{"nil": true}
		}
		return map[string]interface{}{"nil": false, "val": govcEncV(v.Elem(), d+1)}
	case reflect.Struct:
		fs := make([]interface{}, 0, v.NumField())
		for i := 0; i < v.NumField(); i++ {
			fs = append(fs, govcEncV(v.Field(i), d+1))
		}
		return map[string]interface{}{"fields": fs}
	case reflect.Func, reflect.Map, reflect.Chan:
		return map[string]interface{}{"nil": v.IsNil()}
	case reflect.Interface:
		if v.IsNil() {
			return map[string]interface{}{"nil": true}
		}
		return map[string]interface{}{"nil": false, "dyn": v.Elem().Type().String(), "val": govcEncV(v.Elem(), d+1), "errstr": govcErrStr(v)}
	}
	return nil
}

func govcErrStr(v reflect.Value) string {
	if v.CanInterface() {
		if e, ok := v.Interface().(error); ok {
			return e.Error()
		}
	}
	return ""
}
`

type replayOutcome struct {
	Pre     []interface{} `json:"pre"`
	Panic   string        `json:"panic"`
	Stack   string        `json:"stack"`
	Alloc   string        `json:"alloc"` // bytes allocated during the call (runtime.MemStats.TotalAlloc)
	Results []interface{} `json:"results"`
	Post    []interface{} `json:"post"`
	Log     []interface{} `json:"log"`
}

func replayObligation(e *Engine, u *Unit, o *Obligation, repo, dir string) (bool, string) {
	base := filepath.Join(dir, sanitize(o.Name))
	notePath := writeReplayNote(dir, o, "obligation not discharged")
	if (o.Result != "sat" && o.Candidate == "") || strings.HasPrefix(o.Name, "lemma.") {
		return false, notePath
	}
	fn := e.findFunc(u.name)
	if fn == nil {
		return false, notePath
	}
	// the model is sought first with the spec functions as plain definitions (an opaque or abstract function is
	// uninterpreted in the proof script, so its values in a model of that script need not be the real ones)
	var scripts []string
	if o.Result == "sat" {
		if o.candText != "" && o.candText != o.scriptText {
			scripts = append(scripts, o.candText)
		}
		scripts = append(scripts, o.scriptText)
	} else {
		scripts = append(scripts, o.Candidate)
	}
	var confirmed bool
	var text, why string
	for _, sc := range scripts {
		confirmed, text, why = doReplay(e, u, o, fn, repo, sc)
		if confirmed {
			break
		}
	}
	if text != "" {
		goPath := base + "_replay_test.go"
		os.WriteFile(goPath, []byte(text), 0o644)
		appendNote(notePath, "replay harness: "+goPath+"\nreplay verdict: "+why+"\n")
		if confirmed {
			return true, goPath
		}
		return false, goPath
	}
	appendNote(notePath, "replay: "+why+"\n")
	return false, notePath
}

func appendNote(p, s string) {
	f, err := os.OpenFile(p, os.O_APPEND|os.O_WRONLY, 0o644)
	if err == nil {
		f.WriteString(s)
		f.Close()
	}
}

func doReplay(e *Engine, u *Unit, o *Obligation, fn *ssa.Function, repo string, useScript string) (confirmed bool, harness string, why string) {
	defer func() {
		if r := recover(); r != nil {
			why = fmt.Sprintf("replay generator failed: %v", r)
		}
	}()
	rc := &replayCtx{u: u, fn: fn, imports: map[string]string{}, pkg: fn.Pkg.Pkg, refVars: map[string]string{}, script: useScript}
	// 1. plan probes for every parameter
	var params []*cval
	var pterms []string
	for i, p := range fn.Params {
		_ = i
		var term string
		for _, pr := range u.probes {
			if pr.Name == p.Name() {
				term = pr.Term
			}
		}
		if term == "" {
			return false, "", "no probe term for parameter " + p.Name()
		}
		pterms = append(pterms, term)
		params = append(params, rc.plan(term, p.Type(), 0))
	}
	if len(fn.FreeVars) > 0 {
		return false, "", "closures are not replayed directly"
	}
	// 2. ask the solver again, with the probes; prefer small models (short slices, zero offsets)
	script := strings.TrimSuffix(useScript, "\n")
	if i := strings.LastIndex(script, "(check-sat)"); i >= 0 {
		script = script[:i]
	}
	var sliceTerms []string
	for _, p := range rc.probes {
		if strings.HasPrefix(p.term, "(s-len ") {
			sliceTerms = append(sliceTerms, strings.TrimSuffix(strings.TrimPrefix(p.term, "(s-len "), ")"))
		}
	}
	tmpd, _ := os.MkdirTemp("", "govc-replay.")
	defer os.RemoveAll(tmpd)
	solver := o.Solver
	if _, ok := solvers[solver]; !ok {
		solver = "z3-new"
	}
	var res solveResult
	for _, bound := range []int{4, 40, 150, -1} {
		var sb strings.Builder
		sb.WriteString(script)
		if bound >= 0 {
			for _, st := range sliceTerms {
				sb.WriteString(fmt.Sprintf("(assert (and (<= (s-len %[1]s) %[2]d) (= (s-off %[1]s) 0) (<= (s-cap %[1]s) (+ (s-len %[1]s) 8))))\n", st, bound))
			}
			for _, tg := range rc.nilPrefs {
				sb.WriteString(fmt.Sprintf("(assert (= %s 0))\n", tg))
			}
			for _, st := range rc.streamTerms {
				sb.WriteString(fmt.Sprintf("(assert (<= (- %s %s) %d))\n", st[0], st[1], 4*bound))
			}
		}
		sb.WriteString("(check-sat)\n(get-value (")
		for _, p := range rc.probes {
			sb.WriteString(p.term + "\n")
		}
		sb.WriteString("))\n")
		sf := filepath.Join(tmpd, "q.smt2")
		os.WriteFile(sf, []byte(sb.String()), 0o644)
		res = runSolver(solver, sf, 20)
		if os.Getenv("GOVC_DEBUG") != "" {
			os.WriteFile(fmt.Sprintf("/tmp/govc-debug-bound%d.smt2", bound), []byte(sb.String()), 0o644)
			fmt.Fprintf(os.Stderr, "replay model search bound=%d: %s (%.1fs)\n", bound, res.status, res.secs)
		}
		if res.status == "sat" {
			break
		}
	}
	if res.status != "sat" {
		return false, "", "second solver run did not reproduce the model (" + res.status + ")"
	}
	rest := res.out[strings.Index(res.out, "sat")+3:]
	sxs, err := parseSexprs(rest)
	if err != nil || len(sxs) == 0 || len(sxs[0].list) != len(rc.probes) {
		if os.Getenv("GOVC_DEBUG") != "" {
			os.WriteFile("/tmp/govc-debug-replay.out", []byte(res.out), 0o644)
		}
		return false, "", "cannot parse the model values: " + firstLines(rest, 3)
	}
	for i, pr := range rc.probes {
		pair := sxs[0].list[i]
		if len(pair.list) == 2 {
			pr.into(pair.list[1])
		}
	}
	if len(rc.unbuildable) > 0 {
		return false, "", "model not replayable: it needs a non-nil value of interface type " + strings.Join(rc.unbuildable, ", ") + ", which the harness cannot construct"
	}
	// 3. Go harness
	var args []string
	for i, c := range params {
		ex, err := rc.goExpr(c)
		if err != nil {
			return false, "", "model not replayable: " + err.Error()
		}
		v := fmt.Sprintf("in%d", i)
		rc.decls = append(rc.decls, fmt.Sprintf("%s := %s", v, ex))
		args = append(args, v)
	}
	var call string
	nres := fn.Signature.Results().Len()
	var lhs []string
	for i := 0; i < nres; i++ {
		lhs = append(lhs, fmt.Sprintf("r%d", i))
	}
	if fn.Signature.Recv() != nil {
		name := fn.Name()
		call = fmt.Sprintf("%s.%s(%s)", args[0], name, strings.Join(args[1:], ", "))
		if _, isPtr := fn.Signature.Recv().Type().Underlying().(*types.Pointer); !isPtr {
			call = fmt.Sprintf("(%s).%s(%s)", args[0], name, strings.Join(args[1:], ", "))
		}
	} else {
		call = fmt.Sprintf("%s(%s)", fn.Name(), strings.Join(args, ", "))
	}
	if fn.Signature.Variadic() {
		call = strings.TrimSuffix(call, ")") + "...)"
	}
	var body strings.Builder
	for _, d := range rc.decls {
		body.WriteString("\t" + d + "\n")
	}
	{
		var pres []string
		for _, a := range args {
			pres = append(pres, "govcEncP(&"+a+")")
		}
		body.WriteString("\tout := map[string]interface{}{}\n\tout[\"pre\"] = []interface{}{" + strings.Join(pres, ", ") + "}\n")
	}
	body.WriteString("\tfunc() {\n\t\tdefer func() {\n\t\t\tif r := recover(); r != nil {\n\t\t\t\tout[\"panic\"] = fmt.Sprint(r)\n\t\t\t\tout[\"stack\"] = string(debug.Stack())\n\t\t\t}\n\t\t}()\n")
	body.WriteString("\t\tvar govcM0, govcM1 runtime.MemStats\n\t\truntime.ReadMemStats(&govcM0)\n\t\tdefer func() { runtime.ReadMemStats(&govcM1); out[\"alloc\"] = fmt.Sprint(govcM1.TotalAlloc - govcM0.TotalAlloc) }()\n")
	rc.imports["runtime"] = "runtime"
	if nres > 0 {
		body.WriteString("\t\t" + strings.Join(lhs, ", ") + " := " + call + "\n")
		var encs []string
		for _, l := range lhs {
			encs = append(encs, "govcEncP(&"+l+")")
		}
		body.WriteString("\t\tout[\"results\"] = []interface{}{" + strings.Join(encs, ", ") + "}\n")
	} else {
		body.WriteString("\t\t" + call + "\n")
	}
	body.WriteString("\t}()\n")
	var posts []string
	for _, a := range args {
		posts = append(posts, "govcEncP(&"+a+")")
	}
	body.WriteString("\tout[\"post\"] = []interface{}{" + strings.Join(posts, ", ") + "}\n")
	body.WriteString("\tout[\"log\"] = govcLog\n")
	body.WriteString("\tjs, _ := json.Marshal(out)\n\tfmt.Println(\"GOVC-REPLAY-BEGIN\" + string(js) + \"GOVC-REPLAY-END\")\n")
	body.WriteString("\tif out[\"panic\"] != nil {\n\t\tt.Logf(\"panic on the real code: %v\", out[\"panic\"])\n\t}\n")

	rc.imports["testing"] = "testing"
	rc.imports["runtime/debug"] = "debug"
	rc.imports["fmt"] = "fmt"
	rc.imports["encoding/json"] = "json"
	rc.imports["reflect"] = "reflect"
	var imps []string
	for p := range rc.imports {
		imps = append(imps, p)
	}
	sort.Strings(imps)
	var file strings.Builder
	file.WriteString("// Replay of obligation " + o.Name + "\n// clause: " + o.Src + "\n// generated by govc from the solver's counterexample; run inside the package with go test -overlay.\n")
	file.WriteString("// pkgdir: v2" + strings.TrimPrefix(fn.Pkg.Pkg.Path(), "gitlab.com/gomidi/midi/v2") + "\n")
	file.WriteString("package " + rc.pkg.Name() + "\n\nimport (\n")
	for _, p := range imps {
		file.WriteString("\t\"" + p + "\"\n")
	}
	extra := ""
	if rc.needReader {
		extra = replayReader
	}
	file.WriteString(")\n" + replayPrelude + extra + "\nfunc TestGovcReplay(t *testing.T) {\n" + body.String() + "}\n")
	harness = file.String()

	// 4. run on the real code
	outc, runErr := runHarness(repo, fn, harness, tmpd)
	if runErr != "" {
		return false, harness, "harness did not run: " + runErr
	}
	// 5. verdict
	if outc.Panic != "" {
		// a panic confirms the obligation only if it is raised where the obligation says (a harness that could
		// not establish the precondition may well panic somewhere else)
		if loc := srcLoc(o.Src); loc != "" && strings.HasPrefix(o.Kind, "safe") && !strings.Contains(outc.Stack, "/"+loc+" ") && !strings.Contains(outc.Stack, "/"+loc+"\n") {
			return false, harness + "\n// OBSERVED on the real code: panic: " + outc.Panic + " (not at " + loc + ")\n", "a panic was observed on the real code, but not at " + loc + ": " + outc.Panic
		}
	}
	if outc.Panic != "" {
		if rq := preconditionBroken(e, u, fn, outc); rq != "" {
			return false, harness + "\n// OBSERVED on the real code: panic: " + outc.Panic + "\n// but the harness did not establish the precondition: " + rq + "\n", "a panic was observed, but the harness did not establish the precondition (" + rq + ")"
		}
	}
	if strings.HasPrefix(o.Kind, "safe") {
		if outc.Panic != "" {
			return true, harness + "\n// OBSERVED on the real code: panic: " + outc.Panic + "\n", "panic observed on the real code: " + outc.Panic
		}
		return false, harness + "\n// OBSERVED: no panic on the real code\n", "no panic on the real code for this model (symbolic semantics and real code disagree, or the failing site is in a callee reached differently)"
	}
	if outc.Panic != "" {
		return true, harness + "\n// OBSERVED on the real code: panic: " + outc.Panic + "\n", "panic observed on the real code: " + outc.Panic
	}
	if o.Kind != "post" {
		return false, harness, "clause kind " + o.Kind + " is not evaluated on concrete runs"
	}
	ok, detail := evalClauseConcrete(e, u, o, fn, params, outc)
	js, _ := json.Marshal(outc)
	if ok {
		return true, harness + "\n// OBSERVED on the real code: " + string(js) + "\n// the clause evaluates to FALSE on these observed values (" + detail + ")\n", "clause false on the real code"
	}
	return false, harness + "\n// OBSERVED on the real code: " + string(js) + "\n// " + detail + "\n", detail
}

var reSrcLoc = regexp.MustCompile(`([A-Za-z0-9_./-]+\.go):(\d+)`)

// srcLoc extracts "dir/file.go:line" from the source note of an obligation.
func srcLoc(src string) string {
	m := reSrcLoc.FindStringSubmatch(src)
	if m == nil {
		return ""
	}
	return m[1] + ":" + m[2]
}

func runHarness(repo string, fn *ssa.Function, harness, tmpd string) (*replayOutcome, string) {
	rel := strings.TrimPrefix(fn.Pkg.Pkg.Path(), "gitlab.com/gomidi/midi/v2")
	return runHarnessDir(filepath.Join(repo, "v2", rel), harness, tmpd)
}

func runHarnessDir(pkgDir string, harness, tmpd string) (*replayOutcome, string) {
	hf := filepath.Join(tmpd, "zz_govc_replay_test.go")
	os.WriteFile(hf, []byte(harness), 0o644)
	ov := map[string]map[string]string{"Replace": {filepath.Join(pkgDir, "zz_govc_replay_test.go"): hf}}
	ovj, _ := json.Marshal(ov)
	ovf := filepath.Join(tmpd, "overlay.json")
	os.WriteFile(ovf, ovj, 0o644)
	cmd := exec.Command("bash", "-c", "ulimit -v 4000000; exec go test -overlay "+ovf+" -tags verif -vet=off -count=1 -timeout 60s -run '^TestGovcReplay$' -v .")
	cmd.Dir = pkgDir
	cmd.Env = append(os.Environ(), "GOFLAGS=-mod=mod", "GOPROXY=off", "GOSUMDB=off", "GOTOOLCHAIN=local")
	out, _ := cmd.CombinedOutput()
	s := string(out)
	i := strings.Index(s, "GOVC-REPLAY-BEGIN")
	j := strings.Index(s, "GOVC-REPLAY-END")
	if i < 0 || j < 0 {
		return nil, firstLines(s, 12)
	}
	var oc replayOutcome
	if err := json.Unmarshal([]byte(s[i+len("GOVC-REPLAY-BEGIN"):j]), &oc); err != nil {
		return nil, err.Error()
	}
	return &oc, ""
}
