package main

// replayObligation tries to turn the solver's model into a run of the real code.
func replayObligation(e *Engine, u *Unit, o *Obligation, repo, dir string) (bool, string) {
	p := writeReplayNote(dir, o, "obligation not discharged")
	return false, p
}
