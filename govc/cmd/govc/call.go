package main

import (
	"os"
	"go/token"
	"fmt"
	"go/types"
	"sort"
	"strings"

	"golang.org/x/tools/go/ssa"
)

// ---------------------------------------------------------------- calls

func (f *frame) call(ins ssa.Instruction, c *ssa.CallCommon) Val {
	u := f.u
	resT := c.Signature().Results()
	if c.IsInvoke() {
		recv := f.value(c.Value)
		it := c.Value.Type()
		key := "iface:" + types.TypeString(it, func(p *types.Package) string { return p.Name() }) + "." + c.Method.Name()
		args := []Val{recv}
		for _, a := range c.Args {
			args = append(args, f.value(a))
		}
		if rt, ok := recv.(Term); ok && rt.T.K == KIface {
			u.oblige(f.key, "safe.nil", "", f.curReach, Term{"(not (= (i-tag " + rt.S + ") 0))", sBool}, f.pos(ins)+" method call on nil interface", "")
		}
		// the dynamic type is known in this unit (the interface value was made here from a concrete value)
		if rt, ok := recv.(Term); ok {
			if di, ok := u.ifaceDyn[rt.S]; ok {
				if fn := u.eng.prog.LookupMethod(di.T, c.Method.Pkg(), c.Method.Name()); fn != nil && fn.Blocks != nil {
					inRepo := fn.Package() != nil && strings.HasPrefix(fn.Package().Pkg.Path(), "gitlab.com/gomidi/midi/v2")
					if inRepo || u.eng.contracts[funcKey(fn)] != nil {
						return f.callFn(fn, nil, append([]Val{di.V}, args[1:]...), resT, ins)
					}
				}
			}
		}
		if isErrorType(it) && c.Method.Name() == "Error" {
			u.note("error.Error() returns an opaque string")
			return u.declare("errstr", sStr)
		}
		if ct := u.eng.contracts[key]; ct != nil {
			if ct.Opaque {
				u.eng.opaqueUsed[key] = true
				return f.opaqueResult(resT)
			}
			u.eng.trustedUsed[key] = true
			if rt, ok := recv.(Term); ok && rt.T.K == KIface && len(u.devirtFor(key)) > 0 {
				if v, ok := f.devirtualiseWith(rt, it, c, args[1:], resT, ins, ct, key); ok {
					return v
				}
			}
			return f.contractCall(ct, key, nil, args, resT, ins)
		}
		if rt, ok := recv.(Term); ok && rt.T.K == KIface {
			if v, ok := f.devirtualise(rt, it, c, args[1:], resT, ins); ok {
				return v
			}
		}
		return f.havocCall(key, args, resT, ins)
	}
	if b, ok := c.Value.(*ssa.Builtin); ok {
		return f.builtin(b, c, ins)
	}
	var fn *ssa.Function
	var bindings []Val
	switch v := f.value(c.Value).(type) {
	case *FuncRef:
		fn = v.Fn
	case *Closure:
		fn = v.Fn
		bindings = v.Bindings
	case Term:
		// a function value that is not statically known: callback
		var args []Val
		for _, a := range c.Args {
			args = append(args, f.value(a))
		}
		return f.callback(v, c, args, resT, ins)
	default:
		f.bad("call of unsupported value %T", v)
	}
	var args []Val
	for _, a := range c.Args {
		args = append(args, f.value(a))
	}
	return f.callFn(fn, bindings, args, resT, ins)
}

func (f *frame) callFn(fn *ssa.Function, bindings []Val, args []Val, resT *types.Tuple, ins ssa.Instruction) Val {
	u := f.u
	key := funcKey(fn)
	if key == "sort.Sort" || key == "sort.Stable" {
		return f.sortCall(key, args, ins)
	}
	if key == "sort.Ints" && len(args) == 1 {
		if st, ok := args[0].(Term); ok && st.T.K == KSlice {
			return f.permuteSlice(key, st, nil, ins)
		}
	}
	ct := u.eng.contracts[key]
	if ct != nil && ct.Opaque {
		u.eng.opaqueUsed[key] = true
		return f.opaqueResult(resT)
	}
	forceInline := false
	if top := u.eng.contracts[u.name]; top != nil {
		for _, n := range top.Inlines {
			if n == key {
				forceInline = true
			}
		}
	}
	if ct != nil && !ct.Inline && !forceInline {
		if ct.Trusted {
			u.eng.trustedUsed[key] = true
		}
		if len(bindings) > 0 {
			// closure with contract: free variables are visible by name
			return f.contractCallClosure(ct, key, fn, bindings, args, resT, ins)
		}
		return f.contractCall(ct, key, fn, args, resT, ins)
	}
	if u.eng.canInline(fn, ct) || (forceInline && fn.Blocks != nil && len(findLoops(fn)) == 0) {
		u.eng.inlinedUsed[key] = true
		res, st, retc := u.execFunc(fn, args, bindings, f.cur, f.curReach, false, ct)
		f.cur = st
		f.curReach = retc
		return packResults(res, resT)
	}
	return f.havocCall(key, args, resT, ins)
}

func packResults(res []Val, resT *types.Tuple) Val {
	switch resT.Len() {
	case 0:
		return nil
	case 1:
		if len(res) == 0 {
			return nil
		}
		return res[0]
	}
	if len(res) == 0 {
		return nil
	}
	return Tuple(res)
}

func (e *Engine) canInline(fn *ssa.Function, ct *Contract) bool {
	if fn.Blocks == nil {
		return false
	}
	if ct != nil && ct.Inline {
		return true
	}
	inRepo := fn.Package() != nil && strings.HasPrefix(fn.Package().Pkg.Path(), "gitlab.com/gomidi/midi/v2")
	if !inRepo && !e.inlineStd[funcKey(fn)] {
		return false
	}
	// loop-free bodies only (a loop needs an invariant, hence a contract)
	if len(findLoops(fn)) > 0 {
		return false
	}
	return true
}

func (f *frame) opaqueResult(resT *types.Tuple) Val {
	u := f.u
	var res []Val
	for i := 0; i < resT.Len(); i++ {
		s := u.tc.sortOf(resT.At(i).Type())
		res = append(res, u.declare("opq", s))
	}
	return packResults(res, resT)
}

// havocCall: nothing is known about the callee.
func (f *frame) havocCall(key string, args []Val, resT *types.Tuple, ins ssa.Instruction) Val {
	u := f.u
	u.note("unmodelled-call %s: results unconstrained, every heap havocked", key)
	u.frameGhostWrite("everything (call of " + key + ", which has neither contract nor model)")
	for _, h := range sortedKeys(f.cur.heaps) {
		if strings.HasPrefix(h, "G.glob.") || h == "G.nextRef" {
			continue
		}
		u.havocHeap(f.cur, h)
	}
	nr := u.nextRef(f.cur)
	nn := u.declare("nextRef_hv", sInt)
	u.assume(le(nr, nn))
	u.setGhost(f.cur, "nextRef", nn)
	return f.opaqueResult(resT)
}

// contractCall: the callee is represented by its contract only.
func (f *frame) contractCall(ct *Contract, key string, fn *ssa.Function, args []Val, resT *types.Tuple, ins ssa.Instruction) Val {
	return f.contractCallEnv(ct, key, fn, nil, args, resT, ins)
}

func (f *frame) contractCallClosure(ct *Contract, key string, fn *ssa.Function, bindings []Val, args []Val, resT *types.Tuple, ins ssa.Instruction) Val {
	extra := map[string]Val{}
	for i, fv := range fn.FreeVars {
		extra[fv.Name()] = &derefOnUse{ptr: bindings[i]}
	}
	return f.contractCallEnv(ct, key, fn, extra, args, resT, ins)
}

func (f *frame) contractCallEnv(ct *Contract, key string, fn *ssa.Function, extra map[string]Val, args []Val, resT *types.Tuple, ins ssa.Instruction) Val {
	u := f.u
	if fn != nil && !ct.Trusted && fn.Blocks != nil {
		// the callee's contract is relied on: its body has to be verified in the same check
		if u.eng.calledContracts == nil {
			u.eng.calledContracts = map[string]bool{}
		}
		u.eng.calledContracts[key] = true
	}
	vars := map[string]Val{}
	for k, v := range extra {
		vars[k] = v
	}
	// interior pointers (&x.f, &a[i]) passed to a callee under contract: copy in / copy out through a
	// temporary cell (sound when the callee's other parameters do not alias that location)
	type copyBack struct {
		path *PtrPath
		box  Term
	}
	var backs []copyBack
	args = append([]Val(nil), args...)
	for i, a := range args {
		pp, ok := a.(*PtrPath)
		if !ok || pp.Kind == "global" || fn == nil || i >= len(fn.Params) {
			continue
		}
		ptrT, isPtr := fn.Params[i].Type().Underlying().(*types.Pointer)
		if !isPtr {
			continue
		}
		if nt, ok := ptrT.Elem().(*types.Named); ok && ct.Trusted && nt.Obj().Pkg() != nil && nt.Obj().Pkg().Path() == "sync" && pp.Kind == "field" {
			// a lock embedded in a struct: the callee's contract only talks about ghost state of the lock, which
			// is keyed by a stable identity derived from the enclosing object and the field (negative, so that
			// it can never coincide with an object reference)
			if b, ok := pp.Base.(Term); ok {
				args[i] = Term{fmt.Sprintf("(- 0 (+ (* %s 64) %d))", b.S, pp.Field+1), &Sort{K: KRef, Go: fn.Params[i].Type()}}
				continue
			}
		}
		box := u.alloc(f.cur, fn.Params[i].Type())
		u.store(f.cur, box, u.load(f.cur, pp))
		args[i] = box
		backs = append(backs, copyBack{pp, box})
		u.note("interior pointers passed to contract calls are modelled by copy-in/copy-out")
	}
	defer func() {
		for _, b := range backs {
			u.store(f.cur, b.path, u.load(f.cur, b.box))
		}
	}()
	var pkg *ssa.Package
	if fn != nil {
		for i, p := range fn.Params {
			vars[p.Name()] = args[i]
		}
		pkg = fn.Pkg
		if pkg == nil {
			pkg = fn.Package()
		}
	} else {
		for i, n := range ct.Params {
			if i < len(args) {
				vars[n] = args[i]
			}
		}
	}
	oldSt := f.cur.clone()
	env := &SpecEnv{u: u, vars: vars, st: oldSt, pkg: pkg, bound: map[string]Term{}, ctx: "call " + key}
	// implicit precondition: pointer receiver not nil
	if fn != nil && fn.Signature.Recv() != nil && len(args) > 0 {
		f.checkNil(args[0], "receiver of "+key)
	}
	for i, r := range ct.Requires {
		genv := *env
		genv.asGoal = true
		t := genv.evalBool(r.X)
		u.oblige(f.key, "pre", shortKey(key)+"."+clauseName(r, i), f.curReach, t, "requires "+r.Src+" at call of "+key+" "+f.pos(ins), r.Tag)
	}
	// frame: apply modifies
	f.applyModifies(ct, env)
	// results
	var res []Val
	resNames := ct.Results
	for i := 0; i < resT.Len(); i++ {
		s := u.tc.sortOf(resT.At(i).Type())
		t := u.declare(shortKey(key)+"_r", s)
		if s.K == KSlice {
			u.assume(u.wfSlice(t))
		}
		res = append(res, t)
		name := resT.At(i).Name()
		if name != "" && name != "_" {
			vars[name] = t
		}
		if i < len(resNames) {
			vars[resNames[i]] = t
		}
		vars[fmt.Sprintf("result%d", i)] = t
	}
	if len(res) == 1 {
		vars["result"] = res[0]
	}
	// results declared fresh(...) by the contract get their own new backing object
	freshDone := map[string]bool{}
	for _, e := range ct.Ensures {
		for _, fx := range freshArgs(e.X) {
			if fx.Op != "ident" || freshDone[fx.Tok] {
				continue
			}
			freshDone[fx.Tok] = true
			rv, ok := vars[fx.Tok]
			if !ok {
				continue
			}
			rt, ok := rv.(Term)
			if !ok {
				continue
			}
			switch rt.T.K {
			case KSlice:
				el := rt.T.Go.Underlying().(*types.Slice).Elem()
				r := u.alloc(f.cur, types.NewPointer(types.NewArray(el, 0)))
				hn, hs, es := u.elemHeapName(el)
				h := u.heap(f.cur, hn, hs)
				inner := u.fresh("fresh_arr")
				u.items = append(u.items, fmt.Sprintf("(declare-const %s (Array Int %s))", inner, u.tc.smt(es)))
				u.setHeap(f.cur, hn, hs, sto(h, r, Term{inner, nil}))
			case KRef:
				el := u.pointee(rt)
				r := u.alloc(f.cur, rt.T.Go)
				if stt, ok := el.Underlying().(*types.Struct); ok {
					for i := 0; i < stt.NumFields(); i++ {
						hn, hs, fs := u.fieldHeapName(el, i)
						h := u.heap(f.cur, hn, hs)
						v := u.declare("fresh_"+stt.Field(i).Name(), fs)
						if fs.K == KSlice {
							u.assume(u.wfSlice(v))
						}
						u.setHeap(f.cur, hn, hs, sto(h, r, v))
					}
				} else if at, ok := el.Underlying().(*types.Array); ok {
					hn, hs, es := u.elemHeapName(at.Elem())
					h := u.heap(f.cur, hn, hs)
					inner := u.fresh("fresh_arr")
					u.items = append(u.items, fmt.Sprintf("(declare-const %s (Array Int %s))", inner, u.tc.smt(es)))
					u.setHeap(f.cur, hn, hs, sto(h, r, Term{inner, nil}))
				} else {
					hn, hs, bs := u.boxHeapName(el)
					h := u.heap(f.cur, hn, hs)
					v := u.declare("fresh_box", bs)
					u.setHeap(f.cur, hn, hs, sto(h, r, v))
				}
			}
		}
	}
	// fresh(<expression>) for something other than a result (e.g. a field that now holds a newly allocated slice)
	for _, e := range ct.Ensures {
		for _, fx := range freshArgs(e.X) {
			if fx.Op == "ident" || freshDone[fx.String()] {
				continue
			}
			freshDone[fx.String()] = true
			pe := &SpecEnv{u: u, vars: vars, st: f.cur, old: oldSt, pkg: pkg, bound: map[string]Term{}, ctx: "fresh() in contract of " + key}
			var ft Term
			func() {
				defer func() { recover() }()
				ft = pe.eval(fx)
			}()
			if ft.T == nil {
				continue
			}
			switch ft.T.K {
			case KIface:
				// the object behind the interface value is new: make room for it below the new frontier
				nr := u.nextRef(f.cur)
				u.setGhost(f.cur, "nextRef", Term{"(+ " + nr.S + " 1)", sInt})
			case KSlice:
				el := ft.T.Go.Underlying().(*types.Slice).Elem()
				r := u.alloc(f.cur, types.NewPointer(types.NewArray(el, 0)))
				hn, hs, es := u.elemHeapName(el)
				h := u.heap(f.cur, hn, hs)
				inner := u.fresh("fresh_arr")
				u.items = append(u.items, fmt.Sprintf("(declare-const %s (Array Int %s))", inner, u.tc.smt(es)))
				u.setHeap(f.cur, hn, hs, sto(h, r, Term{inner, nil}))
			case KRef:
				el := u.pointee(ft)
				r := u.alloc(f.cur, ft.T.Go)
				if stt, ok := el.Underlying().(*types.Struct); ok {
					for i := 0; i < stt.NumFields(); i++ {
						hn, hs, fs := u.fieldHeapName(el, i)
						h := u.heap(f.cur, hn, hs)
						v := u.declare("fresh_"+stt.Field(i).Name(), fs)
						if fs.K == KSlice {
							u.assume(u.wfSlice(v))
						}
						u.setHeap(f.cur, hn, hs, sto(h, r, v))
					}
				}
			}
		}
	}
	for _, r := range res {
		if t, ok := r.(Term); ok {
			u.assumeLive(f.cur, t)
		}
	}
	if key == "iface:io.Reader.Read" && len(res) == 2 {
		u.sched = append(u.sched, [2]string{res[0].(Term).S, res[1].(Term).S})
	}
	post := &SpecEnv{u: u, vars: vars, st: f.cur, old: oldSt, pkg: pkg, bound: map[string]Term{}, ctx: "call " + key}
	for _, e := range ct.Ensures {
		t := post.evalBool(e.X)
		u.assume(implies(f.curReach, t))
	}
	if f.top {
		// vacuity guard: the callee's contract must not make the continuation unreachable
		u.covCtr++
		if u.callOrd == nil {
			u.callOrd = map[string]int{}
		}
		u.callOrd[key]++
		u.obls = append(u.obls, &Obligation{Name: fmt.Sprintf("cover.%s.after-call%d.%s#%d", f.key, u.covCtr, shortKey(key), u.callOrd[key]), Kind: "cover", Goal: not(f.curReach), NItems: len(u.items), Fn: f.key, Cover: true, Blk: u.curBlk,
			Src: "the path continues after the call of " + key + " at " + f.pos(ins) + " (callee contract consistent here)"})
	}
	return packResults(res, resT)
}

func clauseName(c *Clause, i int) string {
	if c.Name != "" {
		return c.Name
	}
	return fmt.Sprint(i)
}

func shortKey(k string) string {
	return sanitize(k)
}

// freshArgs returns the arguments of fresh(...) that occur anywhere in x. For each of them the caller
// reserves exactly one new object (fresh(e) then pins e to it: old frontier <= ref(e) < new frontier).
func freshArgs(x *SX) []*SX {
	if x == nil {
		return nil
	}
	if x.Op == "call" && x.Args[0].Op == "ident" && x.Args[0].Tok == "fresh" && len(x.Args) == 2 {
		return []*SX{x.Args[1]}
	}
	var out []*SX
	for _, a := range x.Args {
		out = append(out, freshArgs(a)...)
	}
	return out
}

// applyModifies havocs the locations named in the modifies clauses (evaluated in the pre-state).
func (f *frame) applyModifies(ct *Contract, env *SpecEnv) {
	u := f.u
	for _, hn := range sortedKeys(u.eng.newFieldHeaps) {
		if u.eng.heapSorts[hn] != "" {
			u.havocHeap(f.cur, hn) // see alias.go: fields unknown to the contracts
		}
	}
	for _, m := range ct.Modifies {
		x := m.X
		switch x.Op {
		case "ident":
			if x.Tok == "cb_log" {
				u.frameGhostWrite("cb_log")
				f.havocCbLog()
				continue
			}
			if d, ok := env.vars[x.Tok].(*derefOnUse); ok {
				// a captured variable of a closure
				if pt, ok := d.ptr.(Term); ok && pt.T.K == KRef {
					cur := u.load(f.cur, pt)
					u.store(f.cur, pt, u.declare("mod_"+x.Tok, cur.T))
					continue
				}
			}
			if g, ok := u.eng.ghosts[x.Tok]; ok {
				u.frameGhostWrite(x.Tok)
				u.heap(f.cur, "G."+x.Tok, u.tc.smt(g))
				u.havocHeap(f.cur, "G."+x.Tok)
				continue
			}
			env.bad("modifies: unknown ghost %s", x.Tok)
		case "field":
			if hn, ok := u.anyField(x, env); ok {
				u.frameAnyWrite(hn)
				u.heap(f.cur, hn, u.eng.heapSorts[hn])
				u.havocHeap(f.cur, hn)
				continue
			}
			b := env.eval(x.Args[0])
			if gf, ok := u.eng.ghostFields[x.Tok]; ok {
				if _, isField := env.structField(b, x.Tok); !isField {
					id := b
					if b.T.K == KIface {
						id = Term{"(i-val " + b.S + ")", sInt}
					}
					hn := "GF." + x.Tok
					hs := "(Array Int " + u.tc.smt(gf) + ")"
					h := u.heap(f.cur, hn, hs)
					v := u.declare("gf_"+x.Tok, gf)
					u.frameWrite(hn, id, nil, nil, "ghost field "+x.Tok+" modified by the callee")
					u.setHeap(f.cur, hn, hs, sto(h, id, v))
					continue
				}
			}
			if b.T.K != KRef {
				env.bad("modifies: %s is not a pointer field", x)
			}
			idx, ok := env.structField(b, x.Tok)
			if !ok {
				env.bad("modifies: no field %s", x.Tok)
			}
			hn, hs, fs := u.fieldHeapName(u.pointee(b), idx)
			h := u.heap(f.cur, hn, hs)
			v := u.declare("mod_"+x.Tok, fs)
			if fs.K == KSlice {
				u.assume(u.wfSlice(v))
			}
			u.frameWrite(hn, b, nil, nil, "field "+x.Tok+" modified by the callee")
			u.setHeap(f.cur, hn, hs, sto(h, b, v))
		case "un":
			if x.Tok != "*" {
				env.bad("modifies: unsupported %s", x)
			}
			p := env.eval(x.Args[0])
			if p.T.K != KRef {
				env.bad("modifies: *%s is not a pointer", x.Args[0])
			}
			el := u.pointee(p)
			if st, ok := el.Underlying().(*types.Struct); ok {
				for i := 0; i < st.NumFields(); i++ {
					hn, hs, fs := u.fieldHeapName(el, i)
					h := u.heap(f.cur, hn, hs)
					v := u.declare("mod_"+st.Field(i).Name(), fs)
					if fs.K == KSlice {
						u.assume(u.wfSlice(v))
					}
					u.frameWrite(hn, p, nil, nil, "object modified by the callee")
					u.setHeap(f.cur, hn, hs, sto(h, p, v))
				}
				continue
			}
			hn, hs, s := u.boxHeapName(el)
			h := u.heap(f.cur, hn, hs)
			v := u.declare("mod_box", s)
			if p.S != "0" {
				u.frameWrite(hn, Term{"(ite (= " + p.S + " 0) " + sanitize("G.nextRef") + "!init " + p.S + ")", p.T}, nil, nil, "pointee modified by the callee")
			}
			// a nil pointer is not written
			u.setHeap(f.cur, hn, hs, Term{"(ite (= " + p.S + " 0) " + h.S + " " + sto(h, p, v).S + ")", nil})
		case "slice", "index":
			// s[lo:hi]  or s[i]
			b := env.eval(x.Args[0])
			if b.T.K != KSlice {
				env.bad("modifies: %s is not a slice", x.Args[0])
			}
			lo := Term{"0", sInt}
			hi := sliceLen(b)
			if x.Op == "index" {
				lo = env.evalInt(x.Args[1])
				hi = add(lo, Term{"1", sInt})
			} else {
				if x.Args[1] != nil {
					lo = env.evalInt(x.Args[1])
				}
				if x.Args[2] != nil {
					hi = env.evalInt(x.Args[2])
				}
			}
			el := b.T.Go.Underlying().(*types.Slice).Elem()
			hn, hs, es := u.elemHeapName(el)
			h := u.heap(f.cur, hn, hs)
			inner := u.fresh("mod_arr")
			u.items = append(u.items, fmt.Sprintf("(declare-const %s (Array Int %s))", inner, u.tc.smt(es)))
			oldInner := "(select " + h.S + " (s-ref " + b.S + "))"
			u.assume(Term{fmt.Sprintf("(forall ((q_i Int)) (! (=> (or (< q_i %s) (>= q_i %s)) (= (select %s q_i) (select %s q_i))) :pattern ((select %s q_i))))",
				add(sliceOff(b), lo).S, add(sliceOff(b), hi).S, inner, oldInner, inner), sBool})
			{
				alo, ahi := add(sliceOff(b), lo), add(sliceOff(b), hi)
				// an empty range writes nothing
				u.frameWrite(hn, Term{"(ite (< " + alo.S + " " + ahi.S + ") " + sliceRef(b).S + " " + sanitize("G.nextRef") + "!init)", sInt}, &alo, &ahi, "elements modified by the callee")
			}
			u.setHeap(f.cur, hn, hs, sto(h, sliceRef(b), Term{inner, nil}))
		default:
			env.bad("modifies: unsupported location %s", x)
		}
	}
}

// havocCbLog: the callback log may grow; existing entries are kept.
func (f *frame) havocCbLog() {
	u := f.u
	oldN := u.ghost(f.cur, "cb_n", sInt)
	for _, h := range cbHeaps(u) {
		old := u.heap(f.cur, h, u.eng.heapSorts[h])
		nw := u.havocHeap(f.cur, h)
		u.assume(Term{fmt.Sprintf("(forall ((q_c Int)) (! (=> (< q_c %s) (= (select %s q_c) (select %s q_c))) :pattern ((select %s q_c))))", oldN.S, nw.S, old.S, nw.S), sBool})
	}
	nn := u.havocHeap(f.cur, "G.cb_n")
	u.assume(le(oldN, Term{nn.S, sInt}))
}

func cbHeaps(u *Unit) []string {
	// the log columns used by callbacks of shape func([]byte, int32) and the function identity
	u.eng.heapSorts["G.cb_fn"] = "(Array Int Int)"
	u.eng.heapSorts["G.cb_a0_arr"] = "(Array Int (Array Int (_ BitVec 8)))"
	u.eng.heapSorts["G.cb_a0_off"] = "(Array Int Int)"
	u.eng.heapSorts["G.cb_a0_len"] = "(Array Int Int)"
	u.eng.heapSorts["G.cb_a1_"+sanitize("(_ BitVec 32)")] = "(Array Int (_ BitVec 32))"
	u.eng.heapSorts["G.cb_n"] = "Int"
	out := []string{"G.cb_fn", "G.cb_a0_arr", "G.cb_a0_off", "G.cb_a0_len", "G.cb_a1_" + sanitize("(_ BitVec 32)")}
	for h := range u.heapNames {
		if strings.HasPrefix(h, "G.cb_") && h != "G.cb_n" {
			dup := false
			for _, o := range out {
				if o == h {
					dup = true
				}
			}
			if !dup {
				out = append(out, h)
			}
		}
	}
	sort.Strings(out)
	return out
}

func (f *frame) useLemmas(ct *Contract) {
	for _, l := range ct.Uses {
		f.u.useLemma(l)
	}
}

func (u *Unit) useLemma(name string) {
	if u.usedLemmas == nil {
		u.usedLemmas = map[string]bool{}
	}
	if u.usedLemmas[name] {
		return
	}
	u.usedLemmas[name] = true
	u.items = append(u.items, u.axiomText(name))
}

// callback: a call through a function value that is not statically known. It is recorded in the ghost
// callback log; by assumption L2 it does not touch the state under verification.
func (f *frame) callback(fv Term, c *ssa.CallCommon, args []Val, resT *types.Tuple, ins ssa.Instruction) Val {
	u := f.u
	u.note("L2: calls through function values (callbacks) are logged in ghost state and assumed not to re-enter or mutate verified state")
	u.oblige(f.key, "safe.nil", "", f.curReach, not(eq(fv, Term{"0", fv.T})), f.pos(ins)+" call of nil function value", "")
	n := u.ghost(f.cur, "cb_n", sInt)
	// log entry: function identity, and for the common shape (bytes, int32) the bytes snapshot and stamp
	fnH := u.heap(f.cur, "G.cb_fn", "(Array Int Int)")
	u.frameGhostWrite("cb_log")
	u.setHeap(f.cur, "G.cb_fn", "(Array Int Int)", sto(fnH, n, fv))
	for i, a := range args {
		t, ok := a.(Term)
		if !ok {
			continue
		}
		switch t.T.K {
		case KSlice:
			el := t.T.Go.Underlying().(*types.Slice).Elem()
			hn, hs, es := u.elemHeapName(el)
			h := u.heap(f.cur, hn, hs)
			an := fmt.Sprintf("G.cb_a%d_arr", i)
			as := "(Array Int (Array Int " + u.tc.smt(es) + "))"
			u.setHeap(f.cur, an, as, sto(u.heap(f.cur, an, as), n, Term{"(select " + h.S + " (s-ref " + t.S + "))", nil}))
			on := fmt.Sprintf("G.cb_a%d_off", i)
			u.setHeap(f.cur, on, "(Array Int Int)", sto(u.heap(f.cur, on, "(Array Int Int)"), n, sliceOff(t)))
			ln := fmt.Sprintf("G.cb_a%d_len", i)
			u.setHeap(f.cur, ln, "(Array Int Int)", sto(u.heap(f.cur, ln, "(Array Int Int)"), n, sliceLen(t)))
		default:
			vn := fmt.Sprintf("G.cb_a%d_%s", i, sanitize(u.tc.smt(t.T)))
			vs := "(Array Int " + u.tc.smt(t.T) + ")"
			u.setHeap(f.cur, vn, vs, sto(u.heap(f.cur, vn, vs), n, t))
		}
	}
	u.setGhost(f.cur, "cb_n", add(n, Term{"1", sInt}))
	return f.opaqueResult(resT)
}

// ---------------------------------------------------------------- builtins

func (f *frame) builtin(b *ssa.Builtin, c *ssa.CallCommon, ins ssa.Instruction) Val {
	u := f.u
	switch b.Name() {
	case "len":
		x := f.value(c.Args[0])
		t := x.(Term)
		switch t.T.K {
		case KSlice:
			return Term{sliceLen(t).S, sInt}
		case KStr:
			return Term{"(str-len " + t.S + ")", sInt}
		case KMap:
			return u.declare("maplen", sInt)
		}
	case "cap":
		t := f.term(c.Args[0])
		if t.T.K == KSlice {
			return Term{sliceCap(t).S, sInt}
		}
	case "append":
		return f.appendOp(c, ins)
	case "copy":
		return f.copyOp(c, ins)
	case "print", "println":
		return nil
	}
	f.bad("unsupported builtin %s", b.Name())
	return nil
}

// append: model M1 - the result always has a fresh backing array holding old contents then new ones.
func (f *frame) appendOp(c *ssa.CallCommon, ins ssa.Instruction) Val {
	u := f.u
	u.note("M1: append always returns a fresh backing array (never aliases its first argument)")
	s := f.term(c.Args[0])
	var t Term
	if tt, ok := f.value(c.Args[1]).(Term); ok {
		t = tt
	}
	st := c.Args[0].Type().Underlying().(*types.Slice)
	hn, hs, es := u.elemHeapName(st.Elem())
	h := u.heap(f.cur, hn, hs)
	r := u.alloc(f.cur, types.NewPointer(types.NewArray(st.Elem(), 0)))
	arrS := "(Array Int " + u.tc.smt(es) + ")"
	na := u.fresh("app_arr")
	u.items = append(u.items, fmt.Sprintf("(declare-const %s %s)", na, arrS))
	var tl, tAt func(i string) string
	var tlen Term
	if t.T.K == KStr {
		tlen = Term{"(str-len " + t.S + ")", sInt}
		tAt = func(i string) string { return "(select (str-arr " + t.S + ") " + i + ")" }
	} else {
		tlen = sliceLen(t)
		tAt = func(i string) string {
			return "(select (select " + h.S + " (s-ref " + t.S + ")) (+ (s-off " + t.S + ") " + i + "))"
		}
	}
	_ = tl
	sAt := func(i string) string {
		return "(select (select " + h.S + " (s-ref " + s.S + ")) (+ (s-off " + s.S + ") " + i + "))"
	}
	// small constant-length appends are expanded, others are quantified
	var n int
	if _, err := fmt.Sscanf(tlen.S, "%d", &n); err == nil && n <= 8 && !strings.Contains(tlen.S, "(") {
		for i := 0; i < n; i++ {
			u.assume(Term{fmt.Sprintf("(= (select %s (+ (s-len %s) %d)) %s)", na, s.S, i, tAt(fmt.Sprint(i))), sBool})
		}
	} else if sl, ok := c.Args[1].(*ssa.Slice); ok && isSmallLit(sl) > 0 {
		k := isSmallLit(sl)
		for i := 0; i < k; i++ {
			u.assume(Term{fmt.Sprintf("(= (select %s (+ (s-len %s) %d)) %s)", na, s.S, i, tAt(fmt.Sprint(i))), sBool})
		}
	} else {
		// absolute-index form: for every index j of the appended part
		u.assume(Term{fmt.Sprintf("(forall ((q_j Int)) (! (=> (and (<= (s-len %[1]s) q_j) (< q_j (+ (s-len %[1]s) %[2]s))) (= (select %[3]s q_j) %[4]s)) :pattern ((select %[3]s q_j))))",
			s.S, tlen.S, na, tAt("(- q_j (s-len "+s.S+"))")), sBool})
	}
	u.assume(Term{fmt.Sprintf("(forall ((q_i Int)) (! (=> (and (<= 0 q_i) (< q_i (s-len %s))) (= (select %s q_i) %s)) :pattern ((select %s q_i))))",
		s.S, na, sAt("q_i"), na), sBool})
	u.setHeap(f.cur, hn, hs, sto(u.heap(f.cur, hn, hs), r, Term{na, nil}))
	nl := add(sliceLen(s), tlen)
	cp := u.declare("app_cap", sInt)
	u.assume(le(nl, cp))
	u.bumpAlloc(f.cur, nl)
	return u.define(f.key+"_app", mkSlice(u, r, Term{"0", sInt}, nl, cp, c.Args[0].Type()))
}

// isSmallLit recognises  slice t[:]  of a  new [k]T  (the variadic argument of append(s, a, b, c)).
func isSmallLit(sl *ssa.Slice) int {
	if al, ok := sl.X.(*ssa.Alloc); ok && sl.Low == nil && sl.High == nil {
		if at, ok := al.Type().(*types.Pointer).Elem().Underlying().(*types.Array); ok && at.Len() <= 16 {
			return int(at.Len())
		}
	}
	return 0
}

func (f *frame) copyOp(c *ssa.CallCommon, ins ssa.Instruction) Val {
	u := f.u
	dst := f.term(c.Args[0])
	src := f.term(c.Args[1])
	st := c.Args[0].Type().Underlying().(*types.Slice)
	hn, hs, es := u.elemHeapName(st.Elem())
	h := u.heap(f.cur, hn, hs)
	var slen Term
	var sAt func(i string) string
	if src.T.K == KStr {
		slen = Term{"(str-len " + src.S + ")", sInt}
		sAt = func(i string) string { return "(select (str-arr " + src.S + ") " + i + ")" }
	} else {
		slen = sliceLen(src)
		sAt = func(i string) string {
			return "(select (select " + h.S + " (s-ref " + src.S + ")) (+ (s-off " + src.S + ") " + i + "))"
		}
	}
	n := u.define("copy_n", Term{fmt.Sprintf("(ite (< (s-len %s) %s) (s-len %s) %s)", dst.S, slen.S, dst.S, slen.S), sInt})
	na := u.fresh("copy_arr")
	u.items = append(u.items, fmt.Sprintf("(declare-const %s (Array Int %s))", na, u.tc.smt(es)))
	oldInner := "(select " + h.S + " (s-ref " + dst.S + "))"
	u.assume(Term{fmt.Sprintf("(forall ((q_i Int)) (! (= (select %s q_i) (ite (and (<= (s-off %s) q_i) (< q_i (+ (s-off %s) %s))) %s (select %s q_i))) :pattern ((select %s q_i))))",
		na, dst.S, dst.S, n.S, sAt("(- q_i (s-off "+dst.S+"))"), oldInner, na), sBool})
	{
		alo := sliceOff(dst)
		ahi := add(sliceOff(dst), n)
		u.frameWrite(hn, Term{"(ite (< 0 " + n.S + ") " + sliceRef(dst).S + " " + sanitize("G.nextRef") + "!init)", sInt}, &alo, &ahi, "copy destination")
	}
	u.setHeap(f.cur, hn, hs, sto(h, sliceRef(dst), Term{na, nil}))
	return Term{n.S, sInt}
}

// ---------------------------------------------------------------- loops

func (f *frame) loopSpec(li *loopInfo) *LoopSpec {
	if f.contract == nil {
		return nil
	}
	return f.contract.Loops[li.ordinal]
}

// localResolver resolves source-level names at a loop header: phi nodes of the header by their
// source name, otherwise the closest dominating definition recorded by a DebugRef.
func (f *frame) localResolver(at *ssa.BasicBlock) func(string) (Val, bool) {
	return func(name string) (Val, bool) {
		// name$N : the loop-carried variable `name` of loop N (for enclosing loops with equally named variables)
		if i := strings.LastIndex(name, "$"); i > 0 {
			var ord int
			if _, err := fmt.Sscanf(name[i+1:], "%d", &ord); err == nil {
				for _, li := range f.loops {
					if li.ordinal != ord {
						continue
					}
					for _, ins := range li.header.Instrs {
						phi, ok := ins.(*ssa.Phi)
						if !ok {
							break
						}
						if phi.Comment == name[:i] {
							if v, ok := f.vals[phi]; ok {
								return v, true
							}
						}
					}
				}
				return nil, false
			}
		}
		for _, ins := range at.Instrs {
			phi, ok := ins.(*ssa.Phi)
			if !ok {
				break
			}
			if phi.Comment == name {
				if v, ok := f.vals[phi]; ok {
					return v, true
				}
			}
		}
		// address-taken locals: Alloc with that comment
		for _, b := range f.fn.Blocks {
			for _, ins := range b.Instrs {
				if al, ok := ins.(*ssa.Alloc); ok && al.Comment == name {
					if v, ok := f.vals[al]; ok {
						return &derefOnUse{ptr: v}, true
					}
				}
			}
		}
		var best ssa.Value
		bestDepth := -1
		for _, b := range f.fn.Blocks {
			if !(b == at || b.Dominates(at)) {
				continue
			}
			for _, ins := range b.Instrs {
				dr, ok := ins.(*ssa.DebugRef)
				if !ok || dr.IsAddr {
					continue
				}
				if obj := dr.Object(); obj != nil && obj.Name() == name {
					if os.Getenv("GOVC_DEBUGRES") != "" {
						_, have := f.vals[dr.X]
						fmt.Fprintf(os.Stderr, "  cand %s in b%d: X=%s (%T) have=%v\n", name, b.Index, dr.X.Name(), dr.X, have)
					}
					if _, have := f.vals[dr.X]; !have {
						if _, isConst := dr.X.(*ssa.Const); !isConst {
							continue
						}
					}
					d := domDepth(b)
					if d >= bestDepth {
						best = dr.X
						bestDepth = d
					}
				}
			}
		}
		if c, isConst := best.(*ssa.Const); isConst && c != nil {
			// `var m = map[K]V{}` (and similar) is recorded with the zero value at the declaration; the value the
			// variable really holds is defined in the same or a deeper dominating block and recorded further down
			for _, b := range f.fn.Blocks {
				for _, ins := range b.Instrs {
					dr, ok := ins.(*ssa.DebugRef)
					if !ok || dr.IsAddr || dr.Object() == nil || dr.Object().Name() != name {
						continue
					}
					xi, isIns := dr.X.(ssa.Instruction)
					if !isIns || xi.Block() == nil {
						continue
					}
					if _, have := f.vals[dr.X]; !have {
						continue
					}
					if _, isPhi := dr.X.(*ssa.Phi); isPhi {
						continue
					}
					xb := xi.Block()
					if xb != at && xb.Dominates(at) && domDepth(xb) >= bestDepth {
						best = dr.X
						bestDepth = domDepth(xb)
					}
				}
			}
		}
		if best != nil {
			if os.Getenv("GOVC_DEBUGRES") != "" {
				fmt.Fprintf(os.Stderr, "resolve %s at b%d -> %s = %v\n", name, at.Index, best.Name(), f.value(best))
			}
			return f.value(best), true
		}
		return f.loopFormFallback(at, name)
	}
}

// loopFormFallback keeps an invariant attachable when a loop over a slice was rewritten between the
// range form and the index form. Both count completed iterations: the index variable i of
// `for i := 0; i < n; i++` equals rangeindex+1 of `for i := range s`. As with renamed variables the
// binding is a guess that the proof then has to bear out.
func (f *frame) loopFormFallback(at *ssa.BasicBlock, name string) (Val, bool) {
	isOne := func(v ssa.Value) bool {
		c, ok := v.(*ssa.Const)
		return ok && c.Value != nil && c.Value.ExactString() == "1"
	}
	if name == "rangeindex" {
		// the loop is now an index loop: exactly one integer phi that starts at 0 and is incremented by 1
		var cand *ssa.Phi
		n := 0
		for _, ins := range at.Instrs {
			phi, ok := ins.(*ssa.Phi)
			if !ok {
				break
			}
			if b, ok := phi.Type().Underlying().(*types.Basic); !ok || b.Kind() != types.Int {
				continue
			}
			zero, step := false, false
			for _, e := range phi.Edges {
				if c, ok := e.(*ssa.Const); ok && c.Value != nil && c.Value.ExactString() == "0" {
					zero = true
				}
				if bo, ok := e.(*ssa.BinOp); ok && bo.Op == token.ADD && bo.X == ssa.Value(phi) && isOne(bo.Y) {
					step = true
				}
			}
			if zero && step {
				cand = phi
				n++
			}
		}
		if n == 1 {
			if v, ok := f.vals[cand].(Term); ok && v.T.K == KInt {
				f.u.note("invariant of " + f.key + ": rangeindex re-attached to index variable " + cand.Comment + " - 1 (loop form changed)")
				return sub(v, Term{"1", sInt}), true
			}
		}
		return nil, false
	}
	// the loop is now a range loop whose key variable has that name
	var ri *ssa.Phi
	for _, ins := range at.Instrs {
		phi, ok := ins.(*ssa.Phi)
		if !ok {
			break
		}
		if phi.Comment == "rangeindex" {
			ri = phi
		}
	}
	if ri == nil {
		return nil, false
	}
	declared := false
	for _, p := range f.fn.Params {
		if p.Name() == name {
			declared = true
		}
	}
	for _, b := range f.fn.Blocks {
		for _, ins := range b.Instrs {
			dr, ok := ins.(*ssa.DebugRef)
			if !ok || dr.Object() == nil || dr.Object().Name() != name {
				continue
			}
			declared = true
			if dr.IsAddr {
				continue
			}
			if bo, ok := dr.X.(*ssa.BinOp); ok && bo.Op == token.ADD && bo.X == ssa.Value(ri) && isOne(bo.Y) {
				if v, ok := f.vals[ri].(Term); ok && v.T.K == KInt {
					f.u.note("invariant of " + f.key + ": " + name + " re-attached to rangeindex + 1 (loop form changed)")
					return add(v, Term{"1", sInt}), true
				}
			}
		}
	}
	wasIntLocal := false
	for _, dv := range f.u.eng.baseLocals[f.key] {
		if dv.Name == name && dv.Type == "int" {
			wasIntLocal = true
		}
	}
	if !declared && wasIntLocal {
		// an integer variable of the baseline (props/locals.json) that is gone altogether (`for _, x := range s`):
		// in an invariant of this loop the name can only have meant the loop counter
		if v, ok := f.vals[ri].(Term); ok && v.T.K == KInt {
			f.u.note("invariant of " + f.key + ": " + name + " (no longer declared) re-attached to rangeindex + 1 (loop form changed)")
			return add(v, Term{"1", sInt}), true
		}
	}
	return nil, false
}

func domDepth(b *ssa.BasicBlock) int {
	d := 0
	for x := b.Idom(); x != nil; x = x.Idom() {
		d++
	}
	return d
}

func (f *frame) invEnv(at *ssa.BasicBlock, st *State) *SpecEnv {
	return &SpecEnv{u: f.u, vars: f.env, st: st, old: f.entrySt, pkg: f.fn.Pkg, bound: map[string]Term{}, ctx: "invariant of " + f.key,
		resolveLocal: f.localResolver(at)}
}

func (f *frame) loopHeader(li *loopInfo) {
	u := f.u
	ls := f.loopSpec(li)
	if ls == nil {
		f.bad("loop %d has no invariant (function needs a contract with 'loop %d invariant ...')", li.ordinal, li.ordinal)
	}
	if f.contract != nil {
		f.useLemmas(f.contract)
	}
	// 1. invariant holds on entry
	env := f.invEnv(li.header, f.cur)
	env.asGoal = true
	for i, inv := range ls.Invariants {
		t := env.evalBool(inv.X)
		u.oblige(f.key, "inv", fmt.Sprintf("L%d.%s.init", li.ordinal, clauseName(inv, i)), f.curReach, t, "loop invariant on entry: "+inv.Src, inv.Tag)
		if os.Getenv("GOVC_SEQ") != "" {
			aenv := f.invEnv(li.header, f.cur)
			u.assume(implies(f.curReach, aenv.evalBool(inv.X)))
		}
	}
	f.loopEntrySt[li.header.Index] = f.cur.clone()
	// 2. havoc: phis and modified heaps
	pre := f.cur.clone()
	for _, ins := range li.header.Instrs {
		phi, ok := ins.(*ssa.Phi)
		if !ok {
			break
		}
		old := f.vals[phi]
		if t, ok := old.(Term); ok {
			nt := u.declare(f.key+"_"+phi.Name()+"_hv", t.T)
			if t.T.K == KSlice {
				u.assume(u.wfSlice(nt))
			}
			f.vals[phi] = nt
		} else {
			f.bad("loop-carried non-term value %s", phi.Name())
		}
	}
	u.pendingLive = nil
	mods := f.loopMods(li)
	for _, h := range sortedKeys(mods) {
		if _, ok := u.eng.heapSorts[h]; !ok {
			continue
		}
		u.heap(f.cur, h, u.eng.heapSorts[h])
		old := f.cur.heaps[h]
		nw := u.havocHeap(f.cur, h)
		fr := mods[h]
		if h == "G.nextRef" {
			u.assume(le(Term{old.S, sInt}, Term{nw.S, sInt}))
			continue
		}
		if h == "G.allocated" || h == "G.cb_n" {
			u.assume(le(Term{old.S, sInt}, Term{nw.S, sInt}))
			continue
		}
		if strings.HasPrefix(h, "G.cb_") {
			oldN := u.ghost(pre, "cb_n", sInt)
			u.assume(Term{fmt.Sprintf("(forall ((q_c Int)) (! (=> (< q_c %s) (= (select %s q_c) (select %s q_c))) :pattern ((select %s q_c))))", oldN.S, nw.S, old.S, nw.S), sBool})
			continue
		}
		if fr != nil && fr.ok && (strings.HasPrefix(h, "E.") || strings.HasPrefix(h, "H.") || strings.HasPrefix(h, "B.")) {
			// automatic frame: only the statically known targets (and fresh objects) change
			var excl []string
			for _, b := range fr.bases {
				v, have := f.vals[b]
				if !have {
					excl = nil
					fr.ok = false
					break
				}
				t, isT := v.(Term)
				if !isT {
					fr.ok = false
					break
				}
				if t.T.K == KSlice {
					excl = append(excl, "(not (= q_r (s-ref "+t.S+")))")
				} else {
					excl = append(excl, "(not (= q_r "+t.S+"))")
				}
			}
			if fr.ok {
				excl = append(excl, "(< q_r "+u.nextRef(pre).S+")")
				u.assume(Term{fmt.Sprintf("(forall ((q_r Int)) (! (=> (and %s) (= (select %s q_r) (select %s q_r))) :pattern ((select %s q_r))))",
					strings.Join(excl, " "), nw.S, old.S, nw.S), sBool})
			}
		}
	}
	for _, ins := range li.header.Instrs {
		phi, ok := ins.(*ssa.Phi)
		if !ok {
			break
		}
		if t, ok := f.vals[phi].(Term); ok {
			u.assumeLive(f.cur, t)
		}
	}
	// heap well-formedness of the havocked heaps, relative to the (havocked) frontier
	for _, pl := range u.pendingLive {
		u.liveAxiom(pl[0], pl[1], u.nextRef(f.cur).S)
	}
	u.pendingLive = nil
	// 3. assume invariant
	env2 := f.invEnv(li.header, f.cur)
	for _, inv := range ls.Invariants {
		u.assume(implies(f.curReach, env2.evalBool(inv.X)))
		// the same clause in goal form (one variant per quantifier): a back edge that leaves every symbol of
		// the clause untouched is then discharged syntactically
		g := *env2
		g.asGoal = true
		if u.assumedText == nil {
			u.assumedText = map[string]bool{}
		}
		u.assumedText[g.evalBool(inv.X).S] = true
	}
	if ls.Decreases != nil {
		d := env2.evalInt(ls.Decreases.X)
		dv := u.define(f.key+"_dec", d)
		f.decVals[li.header.Index] = dv
	}
}


func (f *frame) backEdge(from, to *ssa.BasicBlock, cond Term) {
	u := f.u
	li := f.loops[to.Index]
	ls := f.loopSpec(li)
	if ls == nil {
		return
	}
	// values of the header phis along this edge
	saved := map[ssa.Value]Val{}
	pi := indexOfPred(to, from)
	for _, ins := range to.Instrs {
		phi, ok := ins.(*ssa.Phi)
		if !ok {
			break
		}
		saved[phi] = f.vals[phi]
	}
	var oldDec Term
	if ls.Decreases != nil {
		oldDec = f.decVals[to.Index]
	}
	newVals := map[ssa.Value]Val{}
	for phi := range saved {
		newVals[phi] = f.value(phi.(*ssa.Phi).Edges[pi])
	}
	for phi, v := range newVals {
		f.vals[phi] = v
	}
	env := f.invEnv(to, f.cur)
	env.asGoal = true
	for i, inv := range ls.Invariants {
		t := env.evalBool(inv.X)
		if u.assumedText[t.S] {
			// literally the formula assumed at the loop header (nothing it mentions changed on this path)
			t = mkBool(true)
		}
		u.oblige(f.key, "inv", fmt.Sprintf("L%d.%s.step", li.ordinal, clauseName(inv, i)), cond, t, "loop invariant preserved: "+inv.Src, inv.Tag)
		// the conjunction of the invariants is proved clause by clause: a later clause may use the earlier ones
		// (each of them has its own obligation, so nothing is assumed that is not also checked)
		if os.Getenv("GOVC_SEQ") != "" && t.S != "true" {
			aenv := f.invEnv(to, f.cur)
			u.assume(implies(cond, aenv.evalBool(inv.X)))
		}
	}
	if ls.Decreases != nil {
		d := env.evalInt(ls.Decreases.X)
		od := oldDec
		u.oblige(f.key, "dec", fmt.Sprintf("L%d", li.ordinal), cond, and(le(Term{"0", sInt}, od), lt(d, od)), "loop variant decreases: "+ls.Decreases.Src, "")
	}
	for phi, v := range saved {
		f.vals[phi] = v
	}
}

type modFrame struct {
	ok    bool
	bases []ssa.Value
}

// loopMods computes (statically) the heaps a loop body may modify.
func (f *frame) loopMods(li *loopInfo) map[string]*modFrame {
	mods := map[string]*modFrame{}
	add := func(h string, base ssa.Value, precise bool) {
		m := mods[h]
		if m == nil {
			m = &modFrame{ok: true}
			mods[h] = m
		}
		if !precise || base == nil {
			m.ok = false
			return
		}
		// base must be defined outside the loop
		if ins, ok := base.(ssa.Instruction); ok && ins.Block() != nil && li.body[ins.Block().Index] && ins.Parent() == f.fn {
			// allocated inside the loop: fresh, fine
			if _, isAlloc := base.(*ssa.Alloc); isAlloc {
				return
			}
			if _, isMk := base.(*ssa.MakeSlice); isMk {
				return
			}
			m.ok = false
			return
		}
		m.bases = append(m.bases, base)
	}
	f.u.scanMods(f.fn, func(b *ssa.BasicBlock) bool { return li.body[b.Index] }, add, 0)
	mods["G.nextRef"] = &modFrame{}
	for hn := range f.u.eng.newFieldHeaps {
		mods[hn] = &modFrame{} // fields unknown to the contracts: any call in the body may write them
	}
	return mods
}

// scanMods walks instructions and reports modified heaps.
func (u *Unit) scanMods(fn *ssa.Function, inScope func(*ssa.BasicBlock) bool, add func(string, ssa.Value, bool), depth int) {
	if depth > 8 {
		return
	}
	var storeTarget func(addr ssa.Value, top bool)
	storeTarget = func(addr ssa.Value, top bool) {
		switch a := addr.(type) {
		case *ssa.FieldAddr:
			pt := a.X.Type().Underlying().(*types.Pointer).Elem()
			// nested paths: the outermost reference decides the heap
			if inner, ok := a.X.(*ssa.FieldAddr); ok {
				storeTarget(inner, false)
				return
			}
			if inner, ok := a.X.(*ssa.IndexAddr); ok {
				storeTarget(inner, false)
				return
			}
			hn, hs, _ := u.fieldHeapName(pt, a.Field)
			u.eng.heapSorts[hn] = hs
			add(hn, a.X, depth == 0)
		case *ssa.IndexAddr:
			switch xt := a.X.Type().Underlying().(type) {
			case *types.Slice:
				hn, hs, _ := u.elemHeapName(xt.Elem())
				u.eng.heapSorts[hn] = hs
				add(hn, a.X, depth == 0)
			case *types.Pointer:
				at := xt.Elem().Underlying().(*types.Array)
				if inner, ok := a.X.(*ssa.FieldAddr); ok {
					storeTarget(inner, false)
					return
				}
				hn, hs, _ := u.elemHeapName(at.Elem())
				u.eng.heapSorts[hn] = hs
				add(hn, a.X, depth == 0)
			}
		case *ssa.Global:
			add("G.glob."+a.Pkg.Pkg.Name()+"."+a.Name(), nil, false)
		default:
			pt, ok := addr.Type().Underlying().(*types.Pointer)
			if !ok {
				return
			}
			el := pt.Elem()
			switch eu := el.Underlying().(type) {
			case *types.Struct:
				for i := 0; i < eu.NumFields(); i++ {
					hn, hs, _ := u.fieldHeapName(el, i)
					u.eng.heapSorts[hn] = hs
					add(hn, addr, depth == 0)
				}
			case *types.Array:
				hn, hs, _ := u.elemHeapName(eu.Elem())
				u.eng.heapSorts[hn] = hs
				add(hn, addr, depth == 0)
			default:
				hn, hs, _ := u.boxHeapName(el)
				u.eng.heapSorts[hn] = hs
				add(hn, addr, depth == 0)
			}
		}
	}
	for _, b := range fn.Blocks {
		if !inScope(b) {
			continue
		}
		for _, ins := range b.Instrs {
			switch i := ins.(type) {
			case *ssa.Store:
				storeTarget(i.Addr, true)
			case *ssa.Alloc:
				// zero-initialisation of a fresh object
				storeTarget(i, true)
			case *ssa.MakeSlice:
				hn, hs, _ := u.elemHeapName(i.Type().Underlying().(*types.Slice).Elem())
				u.eng.heapSorts[hn] = hs
				add(hn, i, depth == 0)
				add("G.allocated", nil, false)
			case *ssa.MapUpdate:
				u.eng.heapSorts["G.mapEpoch"] = "Int"
				add("G.mapEpoch", nil, false)
			case *ssa.Call:
				u.scanCallMods(i.Common(), add, depth)
			case *ssa.Defer:
				u.scanCallMods(i.Common(), add, depth)
			}
		}
	}
}

func (u *Unit) scanCallMods(c *ssa.CallCommon, add func(string, ssa.Value, bool), depth int) {
	all := func() {
		for h := range u.heapNames {
			if strings.HasPrefix(h, "G.glob.") {
				continue
			}
			add(h, nil, false)
		}
	}
	modsOfContract := func(ct *Contract, fn *ssa.Function) {
		// copy-in / copy-out of interior pointer arguments: the callee's effect on *param lands in the heap
		// that holds the argument's target; fresh(*param) re-versions the element heap of a slice target
		if fn != nil {
			for k, a := range c.Args {
				if k >= len(fn.Params) {
					break
				}
				pt, ok := fn.Params[k].Type().Underlying().(*types.Pointer)
				if !ok {
					continue
				}
				switch a.(type) {
				case *ssa.IndexAddr, *ssa.FieldAddr:
					u.addrHeaps(a, add)
				}
				if st, ok := pt.Elem().Underlying().(*types.Slice); ok {
					for _, e := range ct.Ensures {
						if len(freshArgs(e.X)) > 0 {
							hn, hs, _ := u.elemHeapName(st.Elem())
							u.eng.heapSorts[hn] = hs
							add(hn, nil, false)
						}
					}
				}
			}
		}
		for _, m := range ct.Modifies {
			x := m.X
			switch x.Op {
			case "ident":
				if x.Tok == "cb_log" {
					for _, h := range cbHeaps(u) {
						add(h, nil, false)
					}
					add("G.cb_n", nil, false)
					continue
				}
				add("G."+x.Tok, nil, false)
			case "field":
				if len(x.Args) == 1 && x.Args[0].Op == "call" && len(x.Args[0].Args) == 2 && x.Args[0].Args[0].Tok == "any" && fn != nil {
					// any(T).f
					tx := x.Args[0].Args[1]
					pkg := fn.Pkg
					if tx.Op == "field" {
						pkg = u.eng.pkgByName[tx.Args[0].Tok]
					}
					if pkg != nil {
						if obj := pkg.Pkg.Scope().Lookup(tx.Tok); obj != nil {
							if st, ok := obj.Type().Underlying().(*types.Struct); ok {
								for i := 0; i < st.NumFields(); i++ {
									if st.Field(i).Name() == x.Tok {
										hn, hs, _ := u.fieldHeapName(obj.Type(), i)
										u.eng.heapSorts[hn] = hs
										add(hn, nil, false)
									}
								}
							}
						}
					}
					continue
				}
				if _, ok := u.eng.ghostFields[x.Tok]; ok {
					add("GF."+x.Tok, nil, false)
				}
				// the exact heap, from the static type of the base expression
				if fn != nil {
					if bt := u.staticType(fn, x.Args[0]); bt != nil {
						if pt, ok := bt.Underlying().(*types.Pointer); ok {
							bt = pt.Elem()
						}
						if st, ok := bt.Underlying().(*types.Struct); ok {
							for i := 0; i < st.NumFields(); i++ {
								if st.Field(i).Name() == x.Tok {
									hn, hs, _ := u.fieldHeapName(bt, i)
									u.eng.heapSorts[hn] = hs
									add(hn, nil, false)
								}
							}
						}
					}
				}
				// struct field heaps with that field name
				for h := range u.heapNames {
					if strings.HasPrefix(h, "H.") && strings.HasSuffix(h, "."+x.Tok) {
						add(h, nil, false)
					}
				}
				if fn != nil {
					u.addFieldHeapsByName(fn, x.Tok, add)
				}
			case "un":
				// *p : box or struct
				if fn != nil {
					u.addDerefHeaps(fn, x.Args[0], add)
					if bt := u.staticType(fn, x.Args[0]); bt != nil {
						if pt, ok := bt.Underlying().(*types.Pointer); ok {
							if st, ok := pt.Elem().Underlying().(*types.Struct); ok {
								for i := 0; i < st.NumFields(); i++ {
									hn, hs, _ := u.fieldHeapName(pt.Elem(), i)
									u.eng.heapSorts[hn] = hs
									add(hn, nil, false)
								}
							} else if at, ok := pt.Elem().Underlying().(*types.Array); ok {
								hn, hs, _ := u.elemHeapName(at.Elem())
								u.eng.heapSorts[hn] = hs
								add(hn, nil, false)
							} else {
								hn, hs, _ := u.boxHeapName(pt.Elem())
								u.eng.heapSorts[hn] = hs
								add(hn, nil, false)
							}
						}
					}
				} else {
					all()
				}
			case "slice", "index":
				// element heap: by the static type of the named parameter
				if fn != nil {
					u.addElemHeaps(fn, x.Args[0], add)
					if bt := u.staticType(fn, x.Args[0]); bt != nil {
						if sl, ok := bt.Underlying().(*types.Slice); ok {
							hn, hs, _ := u.elemHeapName(sl.Elem())
							u.eng.heapSorts[hn] = hs
							add(hn, nil, false)
						}
					}
				} else {
					hn, hs, _ := u.elemHeapName(types.Typ[types.Uint8])
					u.eng.heapSorts[hn] = hs
					add(hn, nil, false)
				}
			}
		}
		for _, e := range ct.Ensures {
			if len(freshArgs(e.X)) > 0 && fn != nil {
				rt := fn.Signature.Results()
				for k := 0; k < rt.Len(); k++ {
					switch t := rt.At(k).Type().Underlying().(type) {
					case *types.Slice:
						hn, hs, _ := u.elemHeapName(t.Elem())
						u.eng.heapSorts[hn] = hs
						add(hn, nil, false)
					case *types.Pointer:
						if stt, ok := t.Elem().Underlying().(*types.Struct); ok {
							for i := 0; i < stt.NumFields(); i++ {
								hn, hs, _ := u.fieldHeapName(t.Elem(), i)
								u.eng.heapSorts[hn] = hs
								add(hn, nil, false)
							}
						}
					}
				}
			}
		}
	}
	if c.IsInvoke() {
		key := "iface:" + types.TypeString(c.Value.Type(), func(p *types.Package) string { return p.Name() }) + "." + c.Method.Name()
		if ct := u.eng.contracts[key]; ct != nil {
			modsOfContract(ct, nil)
			return
		}
		all()
		return
	}
	if b, ok := c.Value.(*ssa.Builtin); ok {
		switch b.Name() {
		case "append":
			st := c.Args[0].Type().Underlying().(*types.Slice)
			hn, hs, _ := u.elemHeapName(st.Elem())
			u.eng.heapSorts[hn] = hs
			add(hn, nil, false)
			add("G.allocated", nil, false)
		case "copy":
			st := c.Args[0].Type().Underlying().(*types.Slice)
			hn, hs, _ := u.elemHeapName(st.Elem())
			u.eng.heapSorts[hn] = hs
			add(hn, c.Args[0], depth == 0)
		}
		return
	}
	fn := c.StaticCallee()
	if fn == nil {
		// callback
		for _, h := range cbHeaps(u) {
			add(h, nil, false)
		}
		add("G.cb_n", nil, false)
		add("G.cb_fn", nil, false)
		return
	}
	key := funcKey(fn)
	ct := u.eng.contracts[key]
	if ct != nil && ct.Opaque {
		return
	}
	if ct != nil && !ct.Inline {
		modsOfContract(ct, fn)
		return
	}
	if u.eng.canInline(fn, ct) {
		u.scanMods(fn, func(*ssa.BasicBlock) bool { return true }, add, depth+1)
		for _, an := range fn.AnonFuncs {
			u.scanMods(an, func(*ssa.BasicBlock) bool { return true }, add, depth+1)
		}
		return
	}
	all()
}

// addrHeaps marks the heap(s) behind an address value (field / element path) as modified.
func (u *Unit) addrHeaps(addr ssa.Value, add func(string, ssa.Value, bool)) {
	switch a := addr.(type) {
	case *ssa.FieldAddr:
		if inner, ok := a.X.(*ssa.FieldAddr); ok {
			u.addrHeaps(inner, add)
			return
		}
		if inner, ok := a.X.(*ssa.IndexAddr); ok {
			u.addrHeaps(inner, add)
			return
		}
		pt := a.X.Type().Underlying().(*types.Pointer).Elem()
		hn, hs, _ := u.fieldHeapName(pt, a.Field)
		u.eng.heapSorts[hn] = hs
		add(hn, nil, false)
	case *ssa.IndexAddr:
		switch xt := a.X.Type().Underlying().(type) {
		case *types.Slice:
			hn, hs, _ := u.elemHeapName(xt.Elem())
			u.eng.heapSorts[hn] = hs
			add(hn, nil, false)
		case *types.Pointer:
			if inner, ok := a.X.(*ssa.FieldAddr); ok {
				u.addrHeaps(inner, add)
				return
			}
			at := xt.Elem().Underlying().(*types.Array)
			hn, hs, _ := u.elemHeapName(at.Elem())
			u.eng.heapSorts[hn] = hs
			add(hn, nil, false)
		}
	}
}

func (u *Unit) addFieldHeapsByName(fn *ssa.Function, field string, add func(string, ssa.Value, bool)) {
	for _, p := range fn.Params {
		pt, ok := p.Type().Underlying().(*types.Pointer)
		if !ok {
			continue
		}
		st, ok := pt.Elem().Underlying().(*types.Struct)
		if !ok {
			continue
		}
		for i := 0; i < st.NumFields(); i++ {
			if st.Field(i).Name() == field {
				hn, hs, _ := u.fieldHeapName(pt.Elem(), i)
				u.eng.heapSorts[hn] = hs
				add(hn, nil, false)
			}
		}
	}
}

func (u *Unit) addDerefHeaps(fn *ssa.Function, x *SX, add func(string, ssa.Value, bool)) {
	if x.Op != "ident" {
		return
	}
	for _, p := range fn.Params {
		if p.Name() != x.Tok {
			continue
		}
		pt, ok := p.Type().Underlying().(*types.Pointer)
		if !ok {
			continue
		}
		if st, ok := pt.Elem().Underlying().(*types.Struct); ok {
			for i := 0; i < st.NumFields(); i++ {
				hn, hs, _ := u.fieldHeapName(pt.Elem(), i)
				u.eng.heapSorts[hn] = hs
				add(hn, nil, false)
			}
			continue
		}
		hn, hs, _ := u.boxHeapName(pt.Elem())
		u.eng.heapSorts[hn] = hs
		add(hn, nil, false)
	}
}

func (u *Unit) addElemHeaps(fn *ssa.Function, x *SX, add func(string, ssa.Value, bool)) {
	// find a slice-typed parameter or field mentioned by name; fall back to bytes
	var name string
	switch x.Op {
	case "ident":
		name = x.Tok
	case "field":
		name = x.Tok
	}
	found := false
	for _, p := range fn.Params {
		if p.Name() == name {
			if st, ok := p.Type().Underlying().(*types.Slice); ok {
				hn, hs, _ := u.elemHeapName(st.Elem())
				u.eng.heapSorts[hn] = hs
				add(hn, nil, false)
				found = true
			}
		}
		if pt, ok := p.Type().Underlying().(*types.Pointer); ok {
			if stt, ok := pt.Elem().Underlying().(*types.Struct); ok {
				for i := 0; i < stt.NumFields(); i++ {
					if stt.Field(i).Name() == name {
						if st, ok := stt.Field(i).Type().Underlying().(*types.Slice); ok {
							hn, hs, _ := u.elemHeapName(st.Elem())
							u.eng.heapSorts[hn] = hs
							add(hn, nil, false)
							found = true
						}
					}
				}
			}
		}
	}
	if !found {
		hn, hs, _ := u.elemHeapName(types.Typ[types.Uint8])
		u.eng.heapSorts[hn] = hs
		add(hn, nil, false)
	}
}

// ---------------------------------------------------------------- defers

func (f *frame) runDefers() {
	u := f.u
	for i := len(f.defers) - 1; i >= 0; i-- {
		d := f.defers[i]
		reg := f.deferReach[d] // the defer statement was executed on this path
		st0 := f.cur
		reach0 := f.curReach
		f.cur = st0.clone()
		f.curReach = u.define(f.key+"_defer", and(reach0, reg))
		if f.curReach.S != "false" {
			f.call(d, d.Common())
		}
		c1 := f.curReach
		st1 := f.cur
		c0 := u.define(f.key+"_nodefer", and(reach0, not(reg)))
		f.cur = u.mergeStates([]Term{c1, c0}, []*State{st1, st0})
		f.curReach = reach0
	}
}

// devirtualise: a method call on an interface whose implementations are all inside the repository is
// executed per dynamic type (case split on the type tag); that the tag is one of them is an obligation.
func (f *frame) devirtualise(recv Term, it types.Type, c *ssa.CallCommon, args []Val, resT *types.Tuple, ins ssa.Instruction) (Val, bool) {
	return f.devirtualiseWith(recv, it, c, args, resT, ins, nil, "")
}

// devirtualiseWith: with a fallback contract the case split is partial: the listed in-repository
// implementations are executed as themselves, every other dynamic type by the abstract interface contract.
func (f *frame) devirtualiseWith(recv Term, it types.Type, c *ssa.CallCommon, args []Val, resT *types.Tuple, ins ssa.Instruction, fallback *Contract, fbKey string) (Val, bool) {
	u := f.u
	iface, ok := it.Underlying().(*types.Interface)
	if !ok {
		return nil, false
	}
	var impls []types.Type
	if fallback != nil {
		impls = u.devirtFor(fbKey)
	} else {
		impls = u.eng.implementations(iface)
	}
	if len(impls) == 0 {
		return nil, false
	}
	st0 := f.cur
	reach0 := f.curReach
	var conds []Term
	var sts []*State
	var ress []Val
	var tagOK []Term
	for _, T := range impls {
		tag := u.eng.typeTag(T)
		cond := Term{fmt.Sprintf("(= (i-tag %s) %d)", recv.S, tag), sBool}
		tagOK = append(tagOK, cond)
		fn := u.eng.prog.LookupMethod(T, c.Method.Pkg(), c.Method.Name())
		if fn == nil {
			return nil, false
		}
		// receiver value
		var rv Val
		ts := u.tc.sortOf(T)
		switch ts.K {
		case KRef:
			rv = Term{"(i-val " + recv.S + ")", ts}
			u.nonNil[rv.(Term).S] = true
		case KBV:
			if ts.W == 64 {
				rv = Term{"(i-bv " + recv.S + ")", ts}
			} else {
				rv = Term{fmt.Sprintf("((_ extract %d 0) (i-bv %s))", ts.W-1, recv.S), ts}
			}
		case KInt:
			rv = Term{"(i-val " + recv.S + ")", ts}
		default:
			f.cur = st0.clone()
			rv = u.load(f.cur, Term{"(i-val " + recv.S + ")", &Sort{K: KRef, Go: types.NewPointer(T)}})
		}
		f.cur = st0.clone()
		f.curReach = u.define(f.key+"_dyn", and(reach0, cond))
		res := f.callFn(fn, nil, append([]Val{rv}, args...), resT, ins)
		conds = append(conds, f.curReach)
		sts = append(sts, f.cur)
		ress = append(ress, res)
	}
	if fallback != nil {
		f.cur = st0.clone()
		f.curReach = u.define(f.key+"_dynother", and(reach0, not(or(tagOK...))))
		res := f.contractCall(fallback, fbKey, nil, append([]Val{recv}, args...), resT, ins)
		conds = append(conds, f.curReach)
		sts = append(sts, f.cur)
		ress = append(ress, res)
	} else {
		u.oblige(f.key, "safe.dispatch", "", reach0, or(tagOK...), f.pos(ins)+" dynamic type of the "+types.TypeString(it, nil)+" value is one of the in-repository implementations", "")
	}
	f.cur = u.mergeStates(conds, sts)
	f.curReach = u.define(f.key+"_dynret", or(conds...))
	// merge results
	var out Val
	for i := len(ress) - 1; i >= 0; i-- {
		if out == nil {
			out = ress[i]
			continue
		}
		if ress[i] == nil {
			continue
		}
		if ta, ok := ress[i].(Tuple); ok {
			tb := out.(Tuple)
			nt := make(Tuple, len(ta))
			for k := range ta {
				nt[k] = f.iteVal(conds[i], ta[k], tb[k])
			}
			out = nt
		} else {
			out = f.iteVal(conds[i], ress[i], out)
		}
	}
	return out, true
}

// devirtFor: implementations that are executed as themselves for calls through the given interface method,
// globally or for the function under verification only.
func (u *Unit) devirtFor(key string) []types.Type {
	out := append([]types.Type(nil), u.eng.partialDevirt[key]...)
	if ct := u.eng.contracts[u.name]; ct != nil && ct.Devirt != nil {
		out = append(out, ct.Devirt[key]...)
	}
	return out
}

// sortCall models sort.Sort / sort.Stable on a slice type whose dynamic type is known in this unit: the elements
// of the slice are permuted (sort.Stable: nothing more is claimed either; order facts are not modelled).
// Assumption recorded in the evidence: the Len/Less/Swap methods of the sorted type implement the slice order they
// are written for and do not panic; for slices of pointers the elements must be non-nil (checked here).
func (f *frame) sortCall(key string, args []Val, ins ssa.Instruction) Val {
	u := f.u
	it, ok := args[0].(Term)
	if !ok {
		f.bad("%s: unsupported argument", key)
	}
	di, ok := u.ifaceDyn[it.S]
	if !ok {
		f.bad("%s on an interface value whose dynamic type is not known in this function", key)
	}
	_, isSlice := di.T.Underlying().(*types.Slice)
	s, isTerm := di.V.(Term)
	if !isSlice || !isTerm {
		f.bad("%s on a non-slice type %s", key, di.T)
	}
	u.note("%s(%s): modelled as a permutation of the slice elements; Len/Less/Swap of the type are assumed to implement the slice order and not to panic", key, di.T)
	return f.permuteSlice(key, s, di.T, ins)
}

// permuteSlice: the elements of slice s are permuted in place; dt is the sort.Interface type whose Less contract
// gives the order (nil for sort.Ints: ascending integers).
func (f *frame) permuteSlice(key string, s Term, dt types.Type, ins ssa.Instruction) Val {
	u := f.u
	sl := s.T.Go.Underlying().(*types.Slice)
	if dt == nil {
		u.note("%s: modelled as a permutation of the slice elements into ascending order", key)
	}
	el := sl.Elem()
	hn, hs, es := u.elemHeapName(el)
	h := u.heap(f.cur, hn, hs)
	old := "(select " + h.S + " (s-ref " + s.S + "))"
	lo := sliceOff(s)
	hi := add(sliceOff(s), sliceLen(s))
	if es.K == KRef {
		u.oblige(f.key, "safe.nil", "", f.curReach, Term{fmt.Sprintf("(forall ((q_i Int)) (! (=> (and (<= %s q_i) (< q_i %s)) (not (= (select %s q_i) 0))) :pattern ((select %s q_i))))", lo.S, hi.S, old, old), sBool},
			f.pos(ins)+" elements handed to "+key+" are not nil (its Less dereferences them)", "")
	}
	na := u.fresh("sorted_arr")
	u.items = append(u.items, fmt.Sprintf("(declare-const %s (Array Int %s))", na, u.tc.smt(es)))
	pm := u.fresh("perm")
	iv := u.fresh("perminv")
	u.items = append(u.items, fmt.Sprintf("(declare-fun %s (Int) Int)", pm), fmt.Sprintf("(declare-fun %s (Int) Int)", iv))
	inr := func(x string) string { return fmt.Sprintf("(and (<= %s %s) (< %s %s))", lo.S, x, x, hi.S) }
	u.assume(Term{fmt.Sprintf("(forall ((q_i Int)) (! (=> %s (and %s (= (select %s q_i) (select %s (%s q_i))) (= (%s (%s q_i)) q_i))) :pattern ((select %s q_i)) :pattern ((%s q_i))))",
		inr("q_i"), inr("("+pm+" q_i)"), na, old, pm, iv, pm, na, pm), sBool})
	u.assume(Term{fmt.Sprintf("(forall ((q_i Int)) (! (=> %s (and %s (= (%s (%s q_i)) q_i))) :pattern ((%s q_i))))",
		inr("q_i"), inr("("+iv+" q_i)"), pm, iv, iv), sBool})
	u.assume(Term{fmt.Sprintf("(forall ((q_i Int)) (! (=> (not %s) (= (select %s q_i) (select %s q_i))) :pattern ((select %s q_i))))", inr("q_i"), na, old, na), sBool})
	u.frameWrite(hn, Term{"(ite (< " + lo.S + " " + hi.S + ") " + sliceRef(s).S + " " + sanitize("G.nextRef") + "!init)", sInt}, &lo, &hi, "elements permuted by "+key)
	var asc *Term
	if dt != nil {
		asc = f.lessChain(key, dt, s, true) // on the state before the sort
	}
	u.setHeap(f.cur, hn, hs, sto(h, sliceRef(s), Term{na, nil}))
	if asc != nil {
		// data that is already strictly ascending (Less(q, q+1) for all neighbours, Less transitive as sort.Interface
		// demands) has exactly one sorted arrangement: the sort leaves it as it is
		u.assume(Term{fmt.Sprintf("(=> %s (forall ((q_i Int)) (! (= (select %s q_i) (select %s q_i)) :pattern ((select %s q_i)))))", asc.S, na, old, na), sBool})
	}
	if dt == nil {
		// sort.Ints: ascending
		arr := "(select " + u.heap(f.cur, hn, hs).S + " (s-ref " + s.S + "))"
		u.assume(Term{fmt.Sprintf("(forall ((q_srt Int) (q_srt2 Int)) (! (=> (and (<= %[1]s q_srt) (< q_srt q_srt2) (< q_srt2 (+ %[1]s %[2]s))) (<= (select %[3]s q_srt) (select %[3]s q_srt2))) :pattern ((select %[3]s q_srt) (select %[3]s q_srt2))))",
			sliceOff(s).S, sliceLen(s).S, arr), sBool})
		return nil
	}
	if srt := f.lessChain(key, dt, s, false); srt != nil {
		u.assume(*srt)
		u.note("%s: ascending order by the contract of the type's Less (Less(j, i) is false for all i < j); strictly ascending input is left unchanged", key)
	}
	return nil
}

// lessChain states an order fact about slice s in the current state through the *contract* of the type's Less
// method (which has to be verified in the same check): each ensures clause is instantiated for neighbours.
// strict: Less(q, q+1) is true for all 0 <= q < len-1 (strictly ascending); otherwise: Less(q+1, q) is false
// (the documented postcondition of sort.Sort / sort.Stable). A Less without contract gives no order facts.
func (f *frame) lessChain(key string, dt types.Type, s Term, strict bool) *Term {
	u := f.u
	if os.Getenv("GOVC_NOSORTED") != "" {
		return nil
	}
	nt, ok := dt.(*types.Named)
	if !ok || nt.Obj().Pkg() == nil {
		return nil
	}
	less := u.eng.prog.LookupMethod(dt, nt.Obj().Pkg(), "Less")
	if less == nil || len(less.Params) != 3 {
		return nil
	}
	lk := funcKey(less)
	ct := u.eng.contracts[lk]
	if ct == nil || ct.Opaque || len(ct.Ensures) == 0 {
		return nil
	}
	if !ct.Trusted {
		if u.eng.calledContracts == nil {
			u.eng.calledContracts = map[string]bool{}
		}
		u.eng.calledContracts[lk] = true
	} else {
		u.eng.trustedUsed[lk] = true
	}
	q := Term{"q_srt", sInt}
	q2 := Term{"q_srt2", sInt}
	off := sliceOff(s)
	var a, b, res Term
	if strict {
		a, b, res = q, add(q, Term{"1", sInt}), mkBool(true)
	} else {
		// every pair i < j, over absolute indices of the backing array (so that the trigger matches at any offset)
		a, b, res = sub(q2, off), sub(q, off), mkBool(false)
	}
	vars := map[string]Val{less.Params[0].Name(): s, less.Params[1].Name(): a, less.Params[2].Name(): b, "result": res, "result0": res}
	if rn := less.Signature.Results().At(0).Name(); rn != "" && rn != "_" {
		vars[rn] = res
	}
	env := &SpecEnv{u: u, vars: vars, st: f.cur, old: f.cur, pkg: less.Pkg, bound: map[string]Term{"q_srt": q, "q_srt2": q2}, ctx: "order around " + key + " by " + lk}
	var parts []Term
	for _, c := range ct.Ensures {
		parts = append(parts, env.evalBool(c.X))
	}
	var t Term
	if strict {
		t = Term{fmt.Sprintf("(forall ((q_srt Int)) (=> (and (<= 0 q_srt) (< (+ q_srt 1) %s)) %s))", sliceLen(s).S, and(parts...).S), sBool}
	} else {
		hn, hs, _ := u.elemHeapName(s.T.Go.Underlying().(*types.Slice).Elem())
		arr := "(select " + u.heap(f.cur, hn, hs).S + " (s-ref " + s.S + "))"
		t = Term{fmt.Sprintf("(forall ((q_srt Int) (q_srt2 Int)) (! (=> (and (<= %[1]s q_srt) (< q_srt q_srt2) (< q_srt2 (+ %[1]s %[2]s))) %[3]s) :pattern ((select %[4]s q_srt) (select %[4]s q_srt2))))",
			off.S, sliceLen(s).S, and(parts...).S, arr), sBool}
	}
	return &t
}

// staticType gives the Go type of a location expression of a contract of fn (parameters, field selections,
// dereferences, indexing, asptr); nil when it cannot be determined.
func (u *Unit) staticType(fn *ssa.Function, x *SX) types.Type {
	switch x.Op {
	case "ident":
		for _, p := range fn.Params {
			if p.Name() == x.Tok {
				return p.Type()
			}
		}
		for _, fv := range fn.FreeVars {
			if fv.Name() == x.Tok {
				if pt, ok := fv.Type().Underlying().(*types.Pointer); ok {
					return pt.Elem()
				}
			}
		}
		rt := fn.Signature.Results()
		for i := 0; i < rt.Len(); i++ {
			if rt.At(i).Name() == x.Tok || x.Tok == fmt.Sprintf("result%d", i) || (x.Tok == "result" && rt.Len() == 1) {
				return rt.At(i).Type()
			}
		}
		return nil
	case "paren":
		return u.staticType(fn, x.Args[0])
	case "field":
		bt := u.staticType(fn, x.Args[0])
		if bt == nil {
			return nil
		}
		if pt, ok := bt.Underlying().(*types.Pointer); ok {
			bt = pt.Elem()
		}
		st, ok := bt.Underlying().(*types.Struct)
		if !ok {
			return nil
		}
		for i := 0; i < st.NumFields(); i++ {
			if st.Field(i).Name() == x.Tok {
				return st.Field(i).Type()
			}
		}
		return nil
	case "un":
		if x.Tok != "*" {
			return nil
		}
		bt := u.staticType(fn, x.Args[0])
		if bt == nil {
			return nil
		}
		if pt, ok := bt.Underlying().(*types.Pointer); ok {
			return pt.Elem()
		}
		return nil
	case "index":
		bt := u.staticType(fn, x.Args[0])
		if bt == nil {
			return nil
		}
		switch t := bt.Underlying().(type) {
		case *types.Slice:
			return t.Elem()
		case *types.Array:
			return t.Elem()
		}
		return nil
	case "call":
		if len(x.Args) == 3 && x.Args[0].Op == "ident" && x.Args[0].Tok == "asptr" {
			tx := x.Args[2]
			pkg := fn.Pkg
			if tx.Op == "field" {
				pkg = u.eng.pkgByName[tx.Args[0].Tok]
			}
			if pkg == nil {
				return nil
			}
			if obj := pkg.Pkg.Scope().Lookup(tx.Tok); obj != nil {
				return types.NewPointer(obj.Type())
			}
		}
		return nil
	}
	return nil
}
