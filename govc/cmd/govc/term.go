package main

import (
	"fmt"
	"regexp"
	"go/types"
	"math/big"
	"sort"
	"strings"
)

type SortKind int

const (
	KBool SortKind = iota
	KInt
	KBV
	KReal
	KSlice
	KStr
	KRef    // pointer, Int-valued
	KStruct // datatype
	KArray  // (Array Int elem)
	KErr    // error interface, Int-valued (0 = nil)
	KIface  // other interface: datatype Iface(tag, val)
	KTuple
	KFunc // closure / func value: Int-valued identity
	KMap  // map value: Int-valued identity (only package-level tables are interpreted)
	KUnit
	KRecord // spec-level record (datatype declared in a .gvs file)
)

type Sort struct {
	K      SortKind
	W      int
	Signed bool
	Go     types.Type // the Go type where known (needed for heap names, fields)
	Elems  []*Sort    // tuple components / record field sorts
	Name   string     // record name
	Fields []string   // record field names
}

var (
	sBool = &Sort{K: KBool}
	sInt  = &Sort{K: KInt}
	sReal = &Sort{K: KReal}
	sStr  = &Sort{K: KStr}
	sErr  = &Sort{K: KErr}
	sUnit = &Sort{K: KUnit}
)

func bvSort(w int, signed bool) *Sort { return &Sort{K: KBV, W: w, Signed: signed} }

type Term struct {
	S string
	T *Sort
}

func (t Term) String() string { return t.S }

type typeCtx struct {
	structNames map[string]*types.Struct // smt datatype name -> struct
	structOrder []string
	structOf    map[*types.Struct]string
	qual        func(*types.Package) string
}

func newTypeCtx() *typeCtx {
	return &typeCtx{structNames: map[string]*types.Struct{}, structOf: map[*types.Struct]string{},
		qual: func(p *types.Package) string { return p.Name() }}
}

func sanitize(s string) string {
	var sb strings.Builder
	for _, c := range s {
		switch {
		case c >= 'a' && c <= 'z', c >= 'A' && c <= 'Z', c >= '0' && c <= '9', c == '_', c == '.':
			sb.WriteRune(c)
		case c == '*':
			sb.WriteString("P")
		case c == '[':
			sb.WriteString("L")
		case c == ']':
			sb.WriteString("J")
		case c == '$':
			sb.WriteString("D")
		default:
			sb.WriteString("_")
		}
	}
	return sb.String()
}

var reByte = regexp.MustCompile(`\bbyte\b`)
var reRune = regexp.MustCompile(`\brune\b`)

func (tc *typeCtx) typeName(t types.Type) string {
	s := types.TypeString(t, tc.qual)
	s = reByte.ReplaceAllString(s, "uint8")
	s = reRune.ReplaceAllString(s, "int32")
	return sanitize(s)
}

func isErrorType(t types.Type) bool {
	if n, ok := t.(*types.Named); ok {
		return n.Obj().Pkg() == nil && n.Obj().Name() == "error"
	}
	return false
}

// sortOf maps a Go type to the sort used in the encoding.
func (tc *typeCtx) sortOf(t types.Type) *Sort {
	if isErrorType(t) {
		return &Sort{K: KErr, Go: t}
	}
	switch u := t.Underlying().(type) {
	case *types.Basic:
		switch u.Kind() {
		case types.Bool, types.UntypedBool:
			return &Sort{K: KBool, Go: t}
		case types.Int, types.Uint, types.Uintptr, types.UntypedInt:
			return &Sort{K: KInt, Go: t, Signed: u.Kind() != types.Uint && u.Kind() != types.Uintptr}
		case types.Int8:
			return &Sort{K: KBV, W: 8, Signed: true, Go: t}
		case types.Int16:
			return &Sort{K: KBV, W: 16, Signed: true, Go: t}
		case types.Int32, types.UntypedRune:
			return &Sort{K: KBV, W: 32, Signed: true, Go: t}
		case types.Int64:
			return &Sort{K: KBV, W: 64, Signed: true, Go: t}
		case types.Uint8:
			return &Sort{K: KBV, W: 8, Go: t}
		case types.Uint16:
			return &Sort{K: KBV, W: 16, Go: t}
		case types.Uint32:
			return &Sort{K: KBV, W: 32, Go: t}
		case types.Uint64:
			return &Sort{K: KBV, W: 64, Go: t}
		case types.Float64, types.Float32, types.UntypedFloat:
			return &Sort{K: KReal, Go: t}
		case types.String, types.UntypedString:
			return &Sort{K: KStr, Go: t}
		case types.UntypedNil:
			return &Sort{K: KRef, Go: t}
		case types.UnsafePointer:
			return &Sort{K: KRef, Go: t}
		}
	case *types.Pointer:
		return &Sort{K: KRef, Go: t}
	case *types.Slice:
		return &Sort{K: KSlice, Go: t}
	case *types.Array:
		return &Sort{K: KArray, Go: t}
	case *types.Struct:
		tc.structName(t)
		return &Sort{K: KStruct, Go: t}
	case *types.Interface:
		return &Sort{K: KIface, Go: t}
	case *types.Signature:
		return &Sort{K: KFunc, Go: t}
	case *types.Map:
		return &Sort{K: KMap, Go: t}
	case *types.Chan:
		return &Sort{K: KRef, Go: t}
	case *types.Tuple:
		s := &Sort{K: KTuple, Go: t}
		for i := 0; i < u.Len(); i++ {
			s.Elems = append(s.Elems, tc.sortOf(u.At(i).Type()))
		}
		if u.Len() == 0 {
			return sUnit
		}
		return s
	}
	panic(fmt.Sprintf("sortOf: unsupported type %s", t))
}

func (tc *typeCtx) structName(t types.Type) string {
	st := t.Underlying().(*types.Struct)
	if n, ok := tc.structOf[st]; ok {
		return n
	}
	var name string
	if _, ok := t.(*types.Named); ok {
		name = "S_" + tc.typeName(t)
	} else {
		name = fmt.Sprintf("S_anon%d", len(tc.structOf))
	}
	tc.structOf[st] = name
	tc.structNames[name] = st
	// make sure nested struct field sorts are registered first
	for i := 0; i < st.NumFields(); i++ {
		tc.sortOf(st.Field(i).Type())
	}
	tc.structOrder = append(tc.structOrder, name)
	return name
}

// smt returns the SMT-LIB sort text.
func (tc *typeCtx) smt(s *Sort) string {
	switch s.K {
	case KBool:
		return "Bool"
	case KInt, KRef, KErr, KFunc, KMap:
		return "Int"
	case KBV:
		return fmt.Sprintf("(_ BitVec %d)", s.W)
	case KReal:
		return "Real"
	case KSlice:
		return "Slice"
	case KStr:
		return "Str"
	case KStruct:
		return tc.structName(s.Go)
	case KArray:
		return "(Array Int " + tc.smt(tc.sortOf(s.Go.Underlying().(*types.Array).Elem())) + ")"
	case KIface:
		return "Iface"
	case KUnit:
		return "Bool"
	case KRecord:
		return "R_" + s.Name
	}
	panic(fmt.Sprintf("smt sort: kind %d", s.K))
}

func (tc *typeCtx) fieldSel(structName string, i int) string {
	st := tc.structNames[structName]
	return fmt.Sprintf("%s.%s", structName, sanitize(st.Field(i).Name()))
}

// datatype declarations for all registered structs, in dependency order.
func (tc *typeCtx) structDecls() string {
	var sb strings.Builder
	for _, n := range tc.structOrder {
		st := tc.structNames[n]
		sb.WriteString(fmt.Sprintf("(declare-datatypes ((%s 0)) (((mk-%s", n, n))
		for i := 0; i < st.NumFields(); i++ {
			sb.WriteString(fmt.Sprintf(" (%s %s)", tc.fieldSel(n, i), tc.smt(tc.sortOf(st.Field(i).Type()))))
		}
		if st.NumFields() == 0 {
			sb.WriteString(" (" + n + ".dummy Bool)")
		}
		sb.WriteString("))))\n")
	}
	return sb.String()
}

const preamble = `(declare-datatypes ((Slice 0)) (((mk-slice (s-ref Int) (s-off Int) (s-len Int) (s-cap Int)))))
(declare-datatypes ((Str 0)) (((mk-str (str-arr (Array Int (_ BitVec 8))) (str-len Int)))))
(declare-datatypes ((Iface 0)) (((mk-iface (i-tag Int) (i-val Int) (i-bv (_ BitVec 64))))))
`

func (tc *typeCtx) zero(s *Sort) Term {
	switch s.K {
	case KBool, KUnit:
		return Term{"false", s}
	case KInt, KRef, KErr, KFunc, KMap:
		return Term{"0", s}
	case KBV:
		return bvConst(big.NewInt(0), s)
	case KReal:
		return Term{"0.0", s}
	case KSlice:
		return Term{"(mk-slice 0 0 0 0)", s}
	case KStr:
		return Term{"(mk-str ((as const (Array Int (_ BitVec 8))) #x00) 0)", s}
	case KIface:
		return Term{"(mk-iface 0 0 (_ bv0 64))", s}
	case KArray:
		el := tc.sortOf(s.Go.Underlying().(*types.Array).Elem())
		return Term{fmt.Sprintf("((as const %s) %s)", tc.smt(s), tc.zero(el).S), s}
	case KStruct:
		n := tc.structName(s.Go)
		st := tc.structNames[n]
		if st.NumFields() == 0 {
			return Term{"(mk-" + n + " false)", s}
		}
		var parts []string
		for i := 0; i < st.NumFields(); i++ {
			parts = append(parts, tc.zero(tc.sortOf(st.Field(i).Type())).S)
		}
		return Term{"(mk-" + n + " " + strings.Join(parts, " ") + ")", s}
	}
	panic("zero: unsupported sort")
}

func bvConst(v *big.Int, s *Sort) Term {
	m := new(big.Int).Lsh(big.NewInt(1), uint(s.W))
	x := new(big.Int).Mod(v, m)
	if x.Sign() < 0 {
		x.Add(x, m)
	}
	return Term{fmt.Sprintf("(_ bv%s %d)", x.String(), s.W), s}
}

func intConst(v *big.Int) Term {
	if v.Sign() < 0 {
		return Term{"(- " + new(big.Int).Neg(v).String() + ")", sInt}
	}
	return Term{v.String(), sInt}
}

func mkBool(b bool) Term {
	if b {
		return Term{"true", sBool}
	}
	return Term{"false", sBool}
}

func and(ts ...Term) Term {
	var parts []string
	for _, t := range ts {
		if t.S == "true" {
			continue
		}
		if t.S == "false" {
			return mkBool(false)
		}
		parts = append(parts, t.S)
	}
	switch len(parts) {
	case 0:
		return mkBool(true)
	case 1:
		return Term{parts[0], sBool}
	}
	return Term{"(and " + strings.Join(parts, " ") + ")", sBool}
}

func or(ts ...Term) Term {
	var parts []string
	for _, t := range ts {
		if t.S == "false" {
			continue
		}
		if t.S == "true" {
			return mkBool(true)
		}
		parts = append(parts, t.S)
	}
	switch len(parts) {
	case 0:
		return mkBool(false)
	case 1:
		return Term{parts[0], sBool}
	}
	return Term{"(or " + strings.Join(parts, " ") + ")", sBool}
}

func not(t Term) Term {
	if t.S == "true" {
		return mkBool(false)
	}
	if t.S == "false" {
		return mkBool(true)
	}
	return Term{"(not " + t.S + ")", sBool}
}

func implies(a, b Term) Term {
	if a.S == "true" {
		return b
	}
	if a.S == "false" || b.S == "true" {
		return mkBool(true)
	}
	return Term{"(=> " + a.S + " " + b.S + ")", sBool}
}

func ite(c, a, b Term) Term {
	if c.S == "true" {
		return a
	}
	if c.S == "false" {
		return b
	}
	if a.S == b.S {
		return a
	}
	return Term{"(ite " + c.S + " " + a.S + " " + b.S + ")", a.T}
}

func eq(a, b Term) Term {
	if a.S == b.S {
		return mkBool(true)
	}
	return Term{"(= " + a.S + " " + b.S + ")", sBool}
}

func app(op string, s *Sort, args ...Term) Term {
	parts := make([]string, len(args))
	for i, a := range args {
		parts[i] = a.S
	}
	return Term{"(" + op + " " + strings.Join(parts, " ") + ")", s}
}

func sortedKeys[V any](m map[string]V) []string {
	ks := make([]string, 0, len(m))
	for k := range m {
		ks = append(ks, k)
	}
	sort.Strings(ks)
	return ks
}
