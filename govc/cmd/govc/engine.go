package main

import (
	"bufio"
	"fmt"
	"go/types"
	"os"
	"path/filepath"
	"regexp"
	"sort"
	"strings"

	"golang.org/x/tools/go/packages"
	"golang.org/x/tools/go/ssa"
	"golang.org/x/tools/go/ssa/ssautil"
)

type Clause struct {
	Tag  string
	Src  string
	X    *SX
	Name string
}

type LoopSpec struct {
	Invariants []*Clause
	Decreases  *Clause
}

type Contract struct {
	Key      string
	File     string
	Requires []*Clause
	Ensures  []*Clause
	Modifies []*Clause
	Loops    map[int]*LoopSpec
	Inline   bool
	Trusted  bool // the contract is assumed; the body is not verified
	Opaque   bool // calls havoc nothing and return unconstrained results (logging etc.)
	Uses     []string
	Params   []string // for contracts on functions without SSA (interfaces, stdlib): parameter names
	ParamSorts []string
	Results  []string
	ResultSorts []string
	Lines    int
	Devirt   map[string][]types.Type
	Inlines  []string
}

type SpecFunc struct {
	Name       string
	Params     []string
	ParamSorts []*Sort
	Result     *Sort
	Body       *SX
	BodySrc    string
	Recursive  bool
	Opaque     bool // declared uninterpreted with a pattern-triggered defining axiom
	Abstract   bool // like Opaque, but the defining axiom is only available on request (uses <name>.def)
	Pkg        *ssa.Package
	File       string
	GoBody     string
}

type Axiom struct {
	Name  string
	X     *SX
	Src   string
	Lemma bool // has to be proved
	Pkg   *ssa.Package
	File  string
	Uses  []string
	Induct string
	Patterns []*SX
}

type Engine struct {
	prog        *ssa.Program
	pkgs        []*packages.Package
	pkgByName   map[string]*ssa.Package
	contracts   map[string]*Contract
	specFuncs   map[string]*SpecFunc
	specOrder   []string
	axioms      map[string]*Axiom
	axiomOrder  []string
	heapSorts   map[string]string
	errIDs      map[string]int
	funcIDs     map[*ssa.Function]int
	closures    map[int]*Closure
	ghosts      map[string]*Sort
	ghostFields map[string]*Sort
	usedSpec    map[string]bool
	trackAlloc  bool
	calledContracts map[string]bool // non-trusted contracts relied on at call sites in this run
	repo        string
	tcProto     *typeCtx
	inlineStd   map[string]bool
	trustedUsed map[string]bool
	inlinedUsed map[string]bool
	opaqueUsed  map[string]bool
	globalCache map[*ssa.Global]map[string]string
	typeTags map[string]int
	errText map[string]int
	funcIndex map[string]*ssa.Function
	reassigned map[*ssa.Global]bool
	macros map[string]*Macro
	closedIfaces map[string]bool
	partialDevirt map[string][]types.Type
	heapKinds map[string]SortKind
	globalInv map[string]*Clause
	globalInvPkg map[string]*ssa.Package
	heapStructs map[string]types.Type
	records map[string]*Sort
	recordOrder []string
	pkgList    []*pkgT
	aliasNotes []string
	baseFields map[string]map[string]bool
	baseLocals map[string][]declVar
	newFieldHeaps map[string]bool
}

type pkgT = packages.Package

type Macro struct {
	Params []string
	Body   *SX
}

func (e *Engine) useSpecFunc(n string) { e.usedSpec[n] = true }

func (e *Engine) errConst(name string) Term {
	id, ok := e.errIDs[name]
	if !ok {
		id = len(e.errIDs) + 1
		e.errIDs[name] = id
	}
	return Term{fmt.Sprint(id), sErr}
}

func (e *Engine) funcID(fn *ssa.Function) int {
	id, ok := e.funcIDs[fn]
	if !ok {
		id = len(e.funcIDs) + 1
		e.funcIDs[fn] = id
	}
	return id
}

func loadEngine(repo string, patterns []string) (*Engine, error) {
	cfg := &packages.Config{Mode: packages.LoadAllSyntax, Dir: filepath.Join(repo, "v2"), BuildFlags: []string{"-tags=verif"},
		Env: append(os.Environ(), "GOFLAGS=-mod=mod", "GOPROXY=off", "GOSUMDB=off", "GOTOOLCHAIN=local", "CGO_ENABLED=0")}
	pkgs, err := packages.Load(cfg, patterns...)
	if err != nil {
		return nil, err
	}
	var errs []string
	packages.Visit(pkgs, nil, func(p *packages.Package) {
		for _, e := range p.Errors {
			errs = append(errs, e.Error())
		}
	})
	if len(errs) > 0 {
		return nil, fmt.Errorf("package errors:\n%s", strings.Join(errs, "\n"))
	}
	prog, _ := ssautil.AllPackages(pkgs, ssa.InstantiateGenerics|ssa.GlobalDebug)
	prog.Build()
	e := &Engine{prog: prog, pkgs: pkgs, pkgByName: map[string]*ssa.Package{}, contracts: map[string]*Contract{},
		specFuncs: map[string]*SpecFunc{}, axioms: map[string]*Axiom{}, heapSorts: map[string]string{},
		errIDs: map[string]int{}, funcIDs: map[*ssa.Function]int{}, closures: map[int]*Closure{},
		ghosts: map[string]*Sort{}, ghostFields: map[string]*Sort{}, usedSpec: map[string]bool{}, repo: repo,
		inlineStd: map[string]bool{}, trustedUsed: map[string]bool{}, inlinedUsed: map[string]bool{}, opaqueUsed: map[string]bool{},
		globalCache: map[*ssa.Global]map[string]string{}}
	for _, p := range prog.AllPackages() {
		if strings.HasPrefix(p.Pkg.Path(), "gitlab.com/gomidi/midi/v2") {
			e.pkgByName[p.Pkg.Name()] = p
		}
	}
	// stdlib packages by name as well (for io.EOF etc.), without overriding repo packages
	for _, p := range prog.AllPackages() {
		if _, ok := e.pkgByName[p.Pkg.Name()]; !ok {
			e.pkgByName[p.Pkg.Name()] = p
		}
	}
	e.errConst("io.EOF")
	e.macros = map[string]*Macro{}
	e.closedIfaces = map[string]bool{}
	e.partialDevirt = map[string][]types.Type{}
	e.heapKinds = map[string]SortKind{}
	e.globalInv = map[string]*Clause{}
	e.globalInvPkg = map[string]*ssa.Package{}
	e.heapStructs = map[string]types.Type{}
	e.records = map[string]*Sort{}
	e.ghosts["cb_n"] = sInt
	return e, nil
}

var reFunc = regexp.MustCompile(`^func\s+(.+)$`)

// loadSpecFile reads a contract / spec file. pkg may be nil for files under /verif/spec.
func (e *Engine) loadSpecFile(path string, pkg *ssa.Package) error {
	fh, err := os.Open(path)
	if err != nil {
		return err
	}
	defer fh.Close()
	sc := bufio.NewScanner(fh)
	sc.Buffer(make([]byte, 1<<20), 1<<20)
	var lines []string
	for sc.Scan() {
		l := strings.TrimSpace(sc.Text())
		if !strings.HasPrefix(l, "//@") {
			continue
		}
		l = strings.TrimPrefix(l, "//@")
		if strings.HasPrefix(l, "+") && len(lines) > 0 {
			lines[len(lines)-1] += " " + strings.TrimSpace(l[1:])
			continue
		}
		l = strings.TrimSpace(l)
		if l == "" || strings.HasPrefix(l, "--") {
			continue
		}
		lines = append(lines, l)
	}
	var cur *Contract
	skipping := false
	pkgName := ""
	if pkg != nil {
		pkgName = pkg.Pkg.Name()
	}
	for _, l := range lines {
		kw := l
		rest := ""
		if i := strings.IndexAny(l, " \t"); i > 0 {
			kw, rest = l[:i], strings.TrimSpace(l[i+1:])
		}
		mkClause := func(s string) (*Clause, error) {
			c := &Clause{Src: s}
			s = strings.TrimSpace(s)
			if strings.HasPrefix(s, "[") {
				j := strings.Index(s, "]")
				c.Tag = s[1:j]
				s = strings.TrimSpace(s[j+1:])
			}
			// optional clause name:  name: expr   (name is an identifier directly followed by ':' and a space)
			if m := regexp.MustCompile(`^([A-Za-z_][A-Za-z0-9_.]*):\s`).FindStringSubmatch(s); m != nil && !strings.HasPrefix(s, "forall") {
				c.Name = m[1]
				s = strings.TrimSpace(s[len(m[0]):])
			}
			x, err := ParseSpec(s)
			if err != nil {
				return nil, fmt.Errorf("%s: %v", path, err)
			}
			c.X = x
			return c, nil
		}
		if skipping && kw != "package" {
			continue
		}
		switch kw {
		case "package":
			if p := e.pkgByName[rest]; p != nil && strings.HasPrefix(p.Pkg.Path(), "gitlab.com/gomidi/midi/v2") {
				pkg = p
				pkgName = rest
				skipping = false
			} else if rest == "-" {
				pkg = nil
				pkgName = ""
				skipping = false
			} else {
				// the package is not part of this run: its specs are not needed
				skipping = true
			}
		case "func":
			key := rest
			if pkgName != "" && !strings.Contains(rest, ":") {
				key = pkgName + "." + rest
			}
			key = strings.TrimPrefix(key, ":")
			cur = &Contract{Key: key, File: path, Loops: map[int]*LoopSpec{}}
			if _, dup := e.contracts[key]; dup {
				return fmt.Errorf("%s: duplicate contract for %s", path, key)
			}
			e.contracts[key] = cur
		case "params": // for body-less contracts:  params name sort, name sort
			for _, p := range splitTop(rest) {
				f := strings.Fields(p)
				if len(f) != 2 {
					return fmt.Errorf("%s: bad params %q", path, rest)
				}
				cur.Params = append(cur.Params, f[0])
				cur.ParamSorts = append(cur.ParamSorts, f[1])
			}
		case "results":
			for _, p := range splitTop(rest) {
				f := strings.Fields(p)
				if len(f) != 2 {
					return fmt.Errorf("%s: bad results %q", path, rest)
				}
				cur.Results = append(cur.Results, f[0])
				cur.ResultSorts = append(cur.ResultSorts, f[1])
			}
		case "requires", "ensures", "modifies":
			if cur == nil {
				return fmt.Errorf("%s: %s outside func", path, kw)
			}
			if kw == "modifies" {
				for _, m := range splitTop(rest) {
					c, err := mkClause(m)
					if err != nil {
						return err
					}
					cur.Modifies = append(cur.Modifies, c)
				}
				continue
			}
			c, err := mkClause(rest)
			if err != nil {
				return err
			}
			if kw == "requires" {
				cur.Requires = append(cur.Requires, c)
			} else {
				cur.Ensures = append(cur.Ensures, c)
			}
			cur.Lines++
		case "loop":
			if cur == nil {
				return fmt.Errorf("%s: loop clause outside func: %q", path, rest)
			}
			f := strings.SplitN(rest, " ", 3)
			if len(f) < 3 {
				return fmt.Errorf("%s: bad loop clause %q", path, rest)
			}
			var ord int
			fmt.Sscanf(f[0], "%d", &ord)
			ls := cur.Loops[ord]
			if ls == nil {
				ls = &LoopSpec{}
				cur.Loops[ord] = ls
			}
			c, err := mkClause(f[2])
			if err != nil {
				return err
			}
			switch f[1] {
			case "invariant":
				ls.Invariants = append(ls.Invariants, c)
			case "decreases":
				ls.Decreases = c
			default:
				return fmt.Errorf("%s: bad loop clause kind %q", path, f[1])
			}
			cur.Lines++
		case "inline":
			cur.Inline = true
		case "inlines": // inlines f, g : while verifying this function, calls of f and g are executed on their bodies
			for _, n := range strings.Split(rest, ",") {
				n = strings.TrimSpace(n)
				if n == "" {
					continue
				}
				if pkgName != "" && !strings.Contains(n, ":") {
					n = pkgName + "." + n
				}
				cur.Inlines = append(cur.Inlines, strings.TrimPrefix(n, ":"))
			}
		case "trusted":
			cur.Trusted = true
		case "opaque":
			cur.Opaque = true
		case "uses":
			if cur != nil {
				cur.Uses = append(cur.Uses, strings.Fields(strings.ReplaceAll(rest, ",", " "))...)
			}
		case "ghost": // ghost name sort
			f := strings.Fields(rest)
			e.ghosts[f[0]] = e.sortByName(e.tcProto, f[1], pkg)
		case "ghostfield":
			f := strings.Fields(rest)
			e.ghostFields[f[0]] = e.sortByName(e.tcProto, f[1], pkg)
		case "globalinv": // globalinv pkg.Var: expr   (assumed whenever the package-level variable is read: M5)
			i := strings.Index(rest, ":")
			if i < 0 {
				return fmt.Errorf("%s: bad globalinv %q", path, rest)
			}
			x, err := ParseSpec(strings.TrimSpace(rest[i+1:]))
			if err != nil {
				return fmt.Errorf("%s: %v", path, err)
			}
			e.globalInv[strings.TrimSpace(rest[:i])] = &Clause{Src: rest, X: x}
			e.globalInvPkg[strings.TrimSpace(rest[:i])] = pkg
		case "devirt": // devirt iface:io.Writer.Write *smf.wrWrapper : execute these implementations as themselves
			f := strings.Fields(rest)
			if len(f) < 2 {
				return fmt.Errorf("%s: bad devirt %q", path, rest)
			}
			for _, tn := range f[1:] {
				ptr := strings.HasPrefix(tn, "*")
				n := strings.TrimPrefix(tn, "*")
				i := strings.Index(n, ".")
				p := e.pkgByName[n[:i]]
				if p == nil {
					continue // package not loaded in this run
				}
				obj := p.Pkg.Scope().Lookup(n[i+1:])
				if obj == nil {
					return fmt.Errorf("%s: devirt: unknown type %s", path, tn)
				}
				var T types.Type = obj.Type()
				if ptr {
					T = types.NewPointer(T)
				}
				if cur != nil {
					// inside a function contract: applies to the verification of that function only
					if cur.Devirt == nil {
						cur.Devirt = map[string][]types.Type{}
					}
					cur.Devirt[f[0]] = append(cur.Devirt[f[0]], T)
				} else {
					e.partialDevirt[f[0]] = append(e.partialDevirt[f[0]], T)
				}
			}
		case "closed": // closed pkg.Iface : all implementations of this interface are inside the repository
			f := strings.Fields(rest)
			for _, n := range f {
				if i := strings.Index(n, "."); i > 0 {
					if p := e.pkgByName[n[:i]]; p != nil {
						if obj := p.Pkg.Scope().Lookup(n[i+1:]); obj != nil {
							if it, ok := obj.Type().Underlying().(*types.Interface); ok {
								e.closedIfaces[it.String()] = true
							}
						}
					}
				}
			}
		case "record": // record Name(f sort, g sort)
			m := regexp.MustCompile(`^([A-Za-z_][A-Za-z0-9_]*)\s*\(([^)]*)\)$`).FindStringSubmatch(rest)
			if m == nil {
				return fmt.Errorf("%s: bad record %q", path, rest)
			}
			rs := &Sort{K: KRecord, Name: m[1]}
			for _, p := range strings.Split(m[2], ",") {
				f := strings.Fields(p)
				if len(f) != 2 {
					return fmt.Errorf("%s: bad record field %q", path, p)
				}
				rs.Fields = append(rs.Fields, f[0])
				rs.Elems = append(rs.Elems, e.sortByName(e.tcProto, f[1], pkg))
			}
			e.records[m[1]] = rs
			e.recordOrder = append(e.recordOrder, m[1])
			cur = nil
		case "macro": // macro name(a, b) = expr   (expanded in place, may read the heap)
			m := regexp.MustCompile(`^([A-Za-z_][A-Za-z0-9_]*)\s*\(([^)]*)\)\s*=\s*(.*)$`).FindStringSubmatch(rest)
			if m == nil {
				return fmt.Errorf("%s: bad macro %q", path, rest)
			}
			x, err := ParseSpec(m[3])
			if err != nil {
				return fmt.Errorf("%s: %v", path, err)
			}
			mc := &Macro{Body: x}
			for _, p := range strings.Split(m[2], ",") {
				if p = strings.TrimSpace(p); p != "" {
					mc.Params = append(mc.Params, p)
				}
			}
			e.macros[m[1]] = mc
			cur = nil
		case "spec":
			if err := e.parseSpecFunc(rest, pkg, path); err != nil {
				return err
			}
			cur = nil
		case "axiom", "lemma":
			i := strings.Index(rest, ":")
			if i < 0 {
				return fmt.Errorf("%s: axiom needs a name: %q", path, rest)
			}
			name := strings.TrimSpace(rest[:i])
			body := strings.TrimSpace(rest[i+1:])
			ax := &Axiom{Name: name, Src: body, Lemma: kw == "lemma", Pkg: pkg, File: path}
			// optional "uses a, b;" prefix
			if strings.HasPrefix(body, "uses ") {
				j := strings.Index(body, ";")
				ax.Uses = strings.Fields(strings.ReplaceAll(body[5:j], ",", " "))
				body = strings.TrimSpace(body[j+1:])
			}
			if strings.HasPrefix(body, "pattern ") {
				j := strings.Index(body, ";")
				for _, pt := range splitTop(body[8:j]) {
					px, err := ParseSpec(pt)
					if err != nil {
						return fmt.Errorf("%s: %v", path, err)
					}
					ax.Patterns = append(ax.Patterns, px)
				}
				body = strings.TrimSpace(body[j+1:])
			}
			if strings.HasPrefix(body, "induct ") {
				j := strings.Index(body, ";")
				ax.Induct = strings.TrimSpace(body[7:j])
				body = strings.TrimSpace(body[j+1:])
			}
			x, err := ParseSpec(body)
			if err != nil {
				return fmt.Errorf("%s: %v", path, err)
			}
			ax.X = x
			ax.Src = body
			if _, dup := e.axioms[name]; dup {
				return fmt.Errorf("%s: duplicate axiom/lemma %s", path, name)
			}
			e.axioms[name] = ax
			e.axiomOrder = append(e.axiomOrder, name)
			cur = nil
		default:
			return fmt.Errorf("%s: unknown keyword %q in %q", path, kw, l)
		}
	}
	return nil
}

func splitTop(s string) []string {
	var out []string
	depth := 0
	start := 0
	for i, c := range s {
		switch c {
		case '(', '[':
			depth++
		case ')', ']':
			depth--
		case ',':
			if depth == 0 {
				out = append(out, strings.TrimSpace(s[start:i]))
				start = i + 1
			}
		}
	}
	if strings.TrimSpace(s[start:]) != "" {
		out = append(out, strings.TrimSpace(s[start:]))
	}
	return out
}

var reSpecSig = regexp.MustCompile(`^(rec\s+|opaque\s+|abstract\s+rec\s+|abstract\s+)?([A-Za-z_][A-Za-z0-9_]*)\s*\(([^)]*)\)\s*([A-Za-z0-9_.]+)\s*(=\s*(.*))?$`)

func (e *Engine) parseSpecFunc(s string, pkg *ssa.Package, path string) error {
	m := reSpecSig.FindStringSubmatch(s)
	if m == nil {
		return fmt.Errorf("%s: bad spec function %q", path, s)
	}
	sf := &SpecFunc{Name: m[2], Recursive: strings.HasPrefix(m[1], "rec") || strings.Contains(m[1], " rec"), Opaque: strings.HasPrefix(m[1], "opaque") || strings.HasPrefix(m[1], "abstract"), Abstract: strings.HasPrefix(m[1], "abstract"), Pkg: pkg, File: path}
	if strings.TrimSpace(m[3]) != "" {
		for _, p := range strings.Split(m[3], ",") {
			f := strings.Fields(p)
			if len(f) != 2 {
				return fmt.Errorf("%s: bad spec parameter %q", path, p)
			}
			sf.Params = append(sf.Params, f[0])
			sf.ParamSorts = append(sf.ParamSorts, e.sortByName(e.tcProto, f[1], pkg))
		}
	}
	sf.Result = e.sortByName(e.tcProto, m[4], pkg)
	if m[6] != "" {
		x, err := ParseSpec(m[6])
		if err != nil {
			return fmt.Errorf("%s: %v", path, err)
		}
		sf.Body = x
		sf.BodySrc = m[6]
	}
	if _, dup := e.specFuncs[sf.Name]; dup {
		return fmt.Errorf("%s: duplicate spec function %s", path, sf.Name)
	}
	e.specFuncs[sf.Name] = sf
	e.specOrder = append(e.specOrder, sf.Name)
	return nil
}

// loadAllSpecs reads /verif/spec/*.gvs and every zz_contracts*_verif.go in the repo.
func (e *Engine) loadAllSpecs(specDir string) error {
	e.tcProto = newTypeCtx()
	files, _ := filepath.Glob(filepath.Join(specDir, "*.gvs"))
	sort.Strings(files)
	for _, f := range files {
		if err := e.loadSpecFile(f, nil); err != nil {
			return err
		}
	}
	var names []string
	for n := range e.pkgByName {
		names = append(names, n)
	}
	sort.Strings(names)
	for _, n := range names {
		p := e.pkgByName[n]
		if !strings.HasPrefix(p.Pkg.Path(), "gitlab.com/gomidi/midi/v2") {
			continue
		}
		rel := strings.TrimPrefix(p.Pkg.Path(), "gitlab.com/gomidi/midi/v2")
		cfs, _ := filepath.Glob(filepath.Join(e.repo, "v2", rel, "zz_contracts*_verif.go"))
		sort.Strings(cfs)
		for _, f := range cfs {
			if err := e.loadSpecFile(f, p); err != nil {
				return err
			}
		}
	}
	return nil
}

// specPreamble emits the definitions of the spec functions and axioms that are in use.
func (u *Unit) specPreamble(extraAxioms []string) string {
	e := u.eng
	var sb strings.Builder
	for _, rn := range e.recordOrder {
		rs := e.records[rn]
		sb.WriteString(fmt.Sprintf("(declare-datatypes ((R_%s 0)) (((mk-R_%s", rn, rn))
		for i, f := range rs.Fields {
			sb.WriteString(fmt.Sprintf(" (R_%s.%s %s)", rn, f, u.tc.smt(rs.Elems[i])))
		}
		sb.WriteString("))))\n")
	}
	// close usedSpec under bodies: simply emit all spec functions in declaration order that are used
	// (bodies are evaluated first so that their own uses get registered)
	type def struct{ name, text string }
	defs := map[string]string{}
	changed := true
	for changed {
		changed = false
		for _, n := range e.specOrder {
			if !u.usedSpec[n] {
				continue
			}
			if _, done := defs[n]; done {
				continue
			}
			sf := e.specFuncs[n]
			var ps []string
			bound := map[string]Term{}
			for i, p := range sf.Params {
				ps = append(ps, "("+"p_"+p+" "+u.tc.smt(sf.ParamSorts[i])+")")
				bound[p] = Term{"p_" + p, sf.ParamSorts[i]}
			}
			if sf.Body == nil {
				var srt []string
				for _, s := range sf.ParamSorts {
					srt = append(srt, u.tc.smt(s))
				}
				defs[n] = fmt.Sprintf("(declare-fun %s (%s) %s)", n, strings.Join(srt, " "), u.tc.smt(sf.Result))
			} else {
				env := &SpecEnv{u: u, vars: map[string]Val{}, st: &State{heaps: map[string]Term{}}, pkg: sf.Pkg, bound: bound, ctx: "spec " + n}
				body := env.evalAs(sf.Body, sf.Result)
				if isLit(body) {
					body = env.coerce(body, sf.Result)
				}
				if body.T.K == KBV && sf.Result.K == KInt {
					body = u.toInt(body)
				}
				if sf.Opaque && sf.Recursive && !u.concrete && u.usedLemmas[n+".def"] {
					// an abstract recursive function whose definition is asked for: the real definition
					defs[n] = fmt.Sprintf("(define-fun-rec %s (%s) %s %s)", n, strings.Join(ps, " "), u.tc.smt(sf.Result), body.S)
					changed = true
					continue
				}
				if sf.Opaque && !u.concrete {
					var srt, as []string
					for i, s := range sf.ParamSorts {
						srt = append(srt, u.tc.smt(s))
						as = append(as, "p_"+sf.Params[i])
					}
					appl := "(" + n + " " + strings.Join(as, " ") + ")"
					axiom := fmt.Sprintf("(assert (forall (%s) (! (= %s %s) :pattern (%s))))", strings.Join(ps, " "), appl, body.S, appl)
					defs[n] = fmt.Sprintf("(declare-fun %s (%s) %s)", n, strings.Join(srt, " "), u.tc.smt(sf.Result))
					if !sf.Abstract || u.usedLemmas[n+".def"] {
						defs[n] += "\n" + axiom
					}
					changed = true
					continue
				}
				kw := "define-fun"
				if sf.Recursive {
					kw = "define-fun-rec"
				}
				defs[n] = fmt.Sprintf("(%s %s (%s) %s %s)", kw, n, strings.Join(ps, " "), u.tc.smt(sf.Result), body.S)
			}
			changed = true
		}
	}
	// emit in dependency order
	emitted := map[string]bool{}
	var emit func(n string)
	emit = func(n string) {
		if emitted[n] {
			return
		}
		emitted[n] = true
		if sf := e.specFuncs[n]; sf != nil && sf.Body != nil {
			for _, d := range specDeps(sf.Body, e, nil) {
				if d != n {
					emit(d)
				}
			}
		}
		if d, ok := defs[n]; ok {
			sb.WriteString(d + "\n")
		}
	}
	for _, n := range e.specOrder {
		if _, ok := defs[n]; ok {
			emit(n)
		}
	}
	return sb.String()
}

func (u *Unit) axiomText(name string) string {
	if strings.HasSuffix(name, ".def") {
		fn := strings.TrimSuffix(name, ".def")
		if sf := u.eng.specFuncs[fn]; sf != nil && sf.Abstract {
			u.useSpec(fn)
			return "; defining axiom of " + fn + " requested"
		}
	}
	ax := u.eng.axioms[name]
	if ax == nil {
		panic(unsupported{"unknown axiom/lemma " + name})
	}
	env := &SpecEnv{u: u, vars: map[string]Val{}, st: &State{heaps: map[string]Term{}}, pkg: ax.Pkg, bound: map[string]Term{}, ctx: "axiom " + name}
	if ax.X.Op == "forall" && len(ax.Patterns) > 0 {
		var decl []string
		for i, bn := range ax.X.BindNames {
			s := u.eng.sortByName(u.tc, ax.X.BindTypes[i], ax.Pkg)
			env.bound[bn] = Term{"q_" + bn, s}
			decl = append(decl, "(q_"+bn+" "+u.tc.smt(s)+")")
		}
		body := env.evalBool(ax.X.Args[0])
		var pts []string
		for _, p := range ax.Patterns {
			pts = append(pts, env.eval(p).S)
		}
		return "(assert (forall (" + strings.Join(decl, " ") + ") (! " + body.S + " :pattern (" + strings.Join(pts, " ") + "))))"
	}
	t := env.evalBool(ax.X)
	return "(assert " + t.S + ")"
}

// ---------------------------------------------------------------- package-level tables

// globalValue interprets package-level lookup tables (maps initialised by a composite literal in init
// and never updated elsewhere). Returns a MapTable value.
type MapTable struct {
	Keys   []Term
	Vals   []Term
	ValS   *Sort
	Global *ssa.Global
}

func (e *Engine) globalValue(u *Unit, g *ssa.Global) (Val, bool) {
	mt, ok := g.Type().(*types.Pointer).Elem().Underlying().(*types.Map)
	if !ok {
		return nil, false
	}
	init := g.Pkg.Func("init")
	if init == nil {
		return nil, false
	}
	// find the MakeMap stored to g, and all MapUpdates on it inside init
	var mk *ssa.MakeMap
	for _, b := range init.Blocks {
		for _, ins := range b.Instrs {
			if st, ok := ins.(*ssa.Store); ok && st.Addr == g {
				if m, ok := st.Val.(*ssa.MakeMap); ok {
					mk = m
				}
			}
		}
	}
	if mk == nil {
		return nil, false
	}
	// the table must not be updated outside init
	for _, fn := range g.Pkg.Members {
		f, ok := fn.(*ssa.Function)
		if !ok || f == init {
			continue
		}
		if mapWrittenIn(f, g) {
			return nil, false
		}
	}
	tbl := &MapTable{ValS: u.tc.sortOf(mt.Elem()), Global: g}
	for _, b := range init.Blocks {
		for _, ins := range b.Instrs {
			if mu, ok := ins.(*ssa.MapUpdate); ok && mu.Map == mk {
				kc, ok1 := mu.Key.(*ssa.Const)
				vc, ok2 := mu.Value.(*ssa.Const)
				if !ok1 || !ok2 {
					return nil, false
				}
				tbl.Keys = append(tbl.Keys, u.constVal(kc.Value, kc.Type()).(Term))
				tbl.Vals = append(tbl.Vals, u.constVal(vc.Value, vc.Type()).(Term))
			}
		}
	}
	u.note("package table %s.%s evaluated from init (%d entries); no MapUpdate outside init", g.Pkg.Pkg.Name(), g.Name(), len(tbl.Keys))
	return tbl, true
}

func mapWrittenIn(f *ssa.Function, g *ssa.Global) bool {
	check := func(fn *ssa.Function) bool {
		for _, b := range fn.Blocks {
			for _, ins := range b.Instrs {
				switch i := ins.(type) {
				case *ssa.MapUpdate:
					if ld, ok := i.Map.(*ssa.UnOp); ok && ld.X == g {
						return true
					}
				case *ssa.Store:
					if i.Addr == g {
						return true
					}
				}
			}
		}
		return false
	}
	if check(f) {
		return true
	}
	for _, an := range f.AnonFuncs {
		if mapWrittenIn(an, g) {
			return true
		}
	}
	return false
}

// errTexts maps the message text of package-level error variables (initialised with a constant string via
// fmt.Errorf / errors.New) to the integer that stands for that variable.
func (e *Engine) errTexts() map[string]int {
	if e.errText != nil {
		return e.errText
	}
	e.errText = map[string]int{}
	for _, p := range e.prog.AllPackages() {
		if !strings.HasPrefix(p.Pkg.Path(), "gitlab.com/gomidi/midi/v2") {
			continue
		}
		init := p.Func("init")
		if init == nil {
			continue
		}
		for _, b := range init.Blocks {
			for _, ins := range b.Instrs {
				st, ok := ins.(*ssa.Store)
				if !ok {
					continue
				}
				g, ok := st.Addr.(*ssa.Global)
				if !ok || !isErrorType(g.Type().(*types.Pointer).Elem()) {
					continue
				}
				if call, ok := st.Val.(*ssa.Call); ok && len(call.Call.Args) > 0 {
					if c, ok := call.Call.Args[0].(*ssa.Const); ok && c.Value != nil {
						txt := strings.Trim(c.Value.ExactString(), "\"")
						e.errText[txt] = e.errIDs[p.Pkg.Name()+"."+g.Name()]
						if e.errText[txt] == 0 {
							t := e.errConst(p.Pkg.Name() + "." + g.Name())
							fmt.Sscanf(t.S, "%d", new(int))
							e.errText[txt] = e.errIDs[p.Pkg.Name()+"."+g.Name()]
						}
					}
				}
			}
		}
	}
	e.errText["govc injected fault"] = 5000
	return e.errText
}

// globalReassigned reports whether a package-level variable is stored to outside its package's init.
func (e *Engine) globalReassigned(g *ssa.Global) bool {
	if e.reassigned == nil {
		e.reassigned = map[*ssa.Global]bool{}
		for fn := range ssautil.AllFunctions(e.prog) {
			if fn.Name() == "init" && fn.Synthetic != "" {
				continue
			}
			for _, b := range fn.Blocks {
				for _, ins := range b.Instrs {
					if st, ok := ins.(*ssa.Store); ok {
						if gg, ok := st.Addr.(*ssa.Global); ok {
							e.reassigned[gg] = true
						}
					}
				}
			}
		}
	}
	return e.reassigned[g]
}

// specDeps lists the spec functions called in x (through macros as well).
func specDeps(x *SX, e *Engine, acc []string) []string {
	if x == nil {
		return acc
	}
	if x.Op == "call" && x.Args[0].Op == "ident" {
		name := x.Args[0].Tok
		if _, ok := e.specFuncs[name]; ok {
			acc = append(acc, name)
		}
		if mc, ok := e.macros[name]; ok {
			acc = specDeps(mc.Body, e, acc)
		}
	}
	if x.Op == "ident" {
		if _, ok := e.specFuncs[x.Tok]; ok {
			acc = append(acc, x.Tok)
		}
	}
	for _, a := range x.Args {
		acc = specDeps(a, e, acc)
	}
	return acc
}

// implementations lists the concrete types of the repository that implement an interface. It is only used
// for interfaces that are declared in the repository and have an unexported method or are listed as closed.
func (e *Engine) implementations(iface *types.Interface) []types.Type {
	closed := false
	for i := 0; i < iface.NumMethods(); i++ {
		if !iface.Method(i).Exported() {
			closed = true
		}
	}
	key := iface.String()
	if !closed && !e.closedIfaces[key] {
		return nil
	}
	var out []types.Type
	seen := map[string]bool{}
	for _, p := range e.prog.AllPackages() {
		if !strings.HasPrefix(p.Pkg.Path(), "gitlab.com/gomidi/midi/v2") {
			continue
		}
		for _, m := range p.Members {
			tn, ok := m.(*ssa.Type)
			if !ok {
				continue
			}
			T := tn.Type()
			for _, cand := range []types.Type{T, types.NewPointer(T)} {
				if _, isIface := cand.Underlying().(*types.Interface); isIface {
					continue
				}
				if types.Implements(cand, iface) && !seen[cand.String()] {
					// prefer the value type when both implement
					if pt, isPtr := cand.(*types.Pointer); isPtr && types.Implements(pt.Elem(), iface) {
						continue
					}
					seen[cand.String()] = true
					out = append(out, cand)
				}
			}
		}
	}
	sort.Slice(out, func(i, j int) bool { return out[i].String() < out[j].String() })
	return out
}
