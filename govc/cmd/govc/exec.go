package main

import (
	"fmt"
	"os"
	"go/constant"
	"go/token"
	"go/types"
	"math/big"
	"sort"
	"strings"

	"golang.org/x/tools/go/ssa"
)

type retInfo struct {
	cond Term
	vals []Val
	st   *State
}

type loopInfo struct {
	header  *ssa.BasicBlock
	ordinal int
	body    map[int]bool // block indices in the natural loop (including header)
	backs   []*ssa.BasicBlock
}

type frame struct {
	curPos   string // source position of the instruction being executed
	u        *Unit
	fn       *ssa.Function
	key      string
	vals     map[ssa.Value]Val
	reach    map[int]Term
	exitSt   map[int]*State
	edges    map[[2]int]Term
	rets     []retInfo
	top      bool
	contract *Contract
	entrySt  *State
	loops    map[int]*loopInfo // by header index
	env      map[string]Val    // params for spec evaluation
	cur      *State
	curReach Term
	curBlock *ssa.BasicBlock
	defers   []*ssa.Defer
	loopEntrySt map[int]*State
	decVals map[int]Term
	deferReach map[*ssa.Defer]Term
}

type unsupported struct{ msg string }

func (f *frame) bad(format string, a ...interface{}) {
	panic(unsupported{fmt.Sprintf("%s: %s", f.key, fmt.Sprintf(format, a...))})
}

func funcKey(fn *ssa.Function) string {
	if fn.Pkg == nil {
		// synthetic or stdlib method
		if fn.Package() != nil {
			return fn.Package().Pkg.Name() + "." + fn.RelString(fn.Package().Pkg)
		}
		return fn.String()
	}
	return fn.Pkg.Pkg.Name() + "." + fn.RelString(fn.Pkg.Pkg)
}

// ---------------------------------------------------------------- loops / order

func findLoops(fn *ssa.Function) map[int]*loopInfo {
	loops := map[int]*loopInfo{}
	for _, b := range fn.Blocks {
		for _, s := range b.Succs {
			if s.Dominates(b) {
				li := loops[s.Index]
				if li == nil {
					li = &loopInfo{header: s, body: map[int]bool{s.Index: true}}
					loops[s.Index] = li
				}
				li.backs = append(li.backs, b)
				// natural loop: blocks reaching b without passing through s
				stack := []*ssa.BasicBlock{b}
				for len(stack) > 0 {
					x := stack[len(stack)-1]
					stack = stack[:len(stack)-1]
					if li.body[x.Index] {
						continue
					}
					li.body[x.Index] = true
					stack = append(stack, x.Preds...)
				}
			}
		}
	}
	var hs []int
	for h := range loops {
		hs = append(hs, h)
	}
	sort.Ints(hs)
	for i, h := range hs {
		loops[h].ordinal = i
	}
	return loops
}

func isBackEdge(from, to *ssa.BasicBlock) bool { return to.Dominates(from) }

func rpo(fn *ssa.Function) []*ssa.BasicBlock {
	seen := map[int]bool{}
	var post []*ssa.BasicBlock
	var dfs func(b *ssa.BasicBlock)
	dfs = func(b *ssa.BasicBlock) {
		seen[b.Index] = true
		for _, s := range b.Succs {
			if isBackEdge(b, s) || seen[s.Index] {
				continue
			}
			dfs(s)
		}
		post = append(post, b)
	}
	dfs(fn.Blocks[0])
	for i, j := 0, len(post)-1; i < j; i, j = i+1, j-1 {
		post[i], post[j] = post[j], post[i]
	}
	return post
}

// ---------------------------------------------------------------- function execution

// execFunc encodes the body of fn starting in state st under reachability condition reach.
// It returns the merged results, the merged exit state and the condition under which the
// function returns normally.
func (u *Unit) execFunc(fn *ssa.Function, args []Val, bindings []Val, st *State, reach Term, top bool, contract *Contract) ([]Val, *State, Term) {
	if fn.Blocks == nil {
		panic(unsupported{"no body for " + fn.String()})
	}
	u.depth++
	defer func() { u.depth-- }()
	if u.depth > 12 {
		panic(unsupported{"inlining too deep at " + fn.String()})
	}
	f := &frame{u: u, fn: fn, key: funcKey(fn), vals: map[ssa.Value]Val{}, reach: map[int]Term{},
		exitSt: map[int]*State{}, edges: map[[2]int]Term{}, top: top, contract: contract, entrySt: st.clone(),
		loops: findLoops(fn), env: map[string]Val{}, loopEntrySt: map[int]*State{}, decVals: map[int]Term{}}
	for i, p := range fn.Params {
		f.vals[p] = args[i]
		f.env[p.Name()] = args[i]
	}
	for i, fv := range fn.FreeVars {
		f.vals[fv] = bindings[i]
		f.env[fv.Name()] = &derefOnUse{ptr: bindings[i]}
	}
	order := rpo(fn)
	for _, b := range order {
		f.execBlock(b, st, reach)
	}
	// merge returns
	if len(f.rets) == 0 {
		return nil, st, mkBool(false)
	}
	var conds []Term
	var sts []*State
	for _, r := range f.rets {
		conds = append(conds, r.cond)
		sts = append(sts, r.st)
	}
	outSt := u.mergeStates(conds, sts)
	nres := len(f.rets[0].vals)
	res := make([]Val, nres)
	for i := 0; i < nres; i++ {
		acc := f.rets[len(f.rets)-1].vals[i]
		for j := len(f.rets) - 2; j >= 0; j-- {
			acc = f.iteVal(f.rets[j].cond, f.rets[j].vals[i], acc)
		}
		if t, ok := acc.(Term); ok {
			acc = u.define(f.key+"_res", t)
		}
		res[i] = acc
	}
	return res, outSt, u.define(f.key+"_ret", or(conds...))
}

// derefOnUse marks a spec-environment entry whose value is the content of a cell.
type derefOnUse struct{ ptr Val }

func (f *frame) iteVal(c Term, a, b Val) Val {
	at, aok := a.(Term)
	bt, bok := b.(Term)
	if aok && bok {
		return ite(c, at, bt)
	}
	if fmt.Sprint(a) == fmt.Sprint(b) {
		return a
	}
	ac, ok1 := a.(*Closure)
	bc, ok2 := b.(*Closure)
	if ok1 && ok2 && ac.Fn == bc.Fn {
		return a
	}
	f.bad("cannot merge non-term values %T / %T", a, b)
	return nil
}

func (f *frame) execBlock(b *ssa.BasicBlock, st0 *State, reach0 Term) {
	u := f.u
	if f.top {
		u.markBlock(b.Index)
	}
	var st *State
	var reach Term
	li := f.loops[b.Index]
	if b.Index == 0 {
		st = st0.clone()
		reach = reach0
	} else {
		var conds []Term
		var sts []*State
		var preds []*ssa.BasicBlock
		for _, p := range b.Preds {
			if isBackEdge(p, b) {
				continue
			}
			c, ok := f.edges[[2]int{p.Index, b.Index}]
			if !ok {
				continue // predecessor not reachable / not processed
			}
			if c.S == "false" {
				continue
			}
			conds = append(conds, c)
			sts = append(sts, f.exitSt[p.Index])
			preds = append(preds, p)
		}
		if len(conds) == 0 {
			f.reach[b.Index] = mkBool(false)
			return
		}
		reach = u.define(fmt.Sprintf("%s_b%d", f.key, b.Index), or(conds...))
		st = u.mergeStates(conds, sts)
		// phis
		for _, ins := range b.Instrs {
			phi, ok := ins.(*ssa.Phi)
			if !ok {
				break
			}
			var acc Val
			for i := len(preds) - 1; i >= 0; i-- {
				pi := indexOfPred(b, preds[i])
				v := f.value(phi.Edges[pi])
				if acc == nil {
					acc = v
				} else {
					acc = f.iteVal(conds[i], v, acc)
				}
			}
			if t, ok := acc.(Term); ok {
				acc = u.define(f.key+"_"+phi.Name(), t)
			}
			f.vals[phi] = acc
		}
	}
	f.cur = st
	f.curReach = reach
	f.curBlock = b
	if li != nil {
		f.loopHeader(li)
		st = f.cur
		reach = f.curReach
	}
	f.reach[b.Index] = reach

	for _, ins := range b.Instrs {
		if _, ok := ins.(*ssa.Phi); ok {
			continue
		}
		u.curReach = f.curReach
		f.curPos = f.pos(ins)
		f.execInstr(ins)
		if f.curReach.S == "false" {
			break
		}
	}
	f.exitSt[b.Index] = f.cur
}

func indexOfPred(b, p *ssa.BasicBlock) int {
	for i, x := range b.Preds {
		if x == p {
			return i
		}
	}
	return -1
}

func (f *frame) setEdge(from, to *ssa.BasicBlock, c Term) {
	c = f.u.define(fmt.Sprintf("%s_e%d_%d", f.key, from.Index, to.Index), c)
	k := [2]int{from.Index, to.Index}
	if old, ok := f.edges[k]; ok {
		c = or(old, c)
	}
	f.edges[k] = c
	if isBackEdge(from, to) {
		f.backEdge(from, to, c)
	}
}

// ---------------------------------------------------------------- values

func (f *frame) value(v ssa.Value) Val {
	if x, ok := f.vals[v]; ok {
		return x
	}
	switch v := v.(type) {
	case *ssa.Const:
		return f.u.constVal(v.Value, v.Type())
	case *ssa.Global:
		return &PtrPath{Kind: "global", Global: v}
	case *ssa.Function:
		return &FuncRef{v}
	case *ssa.Builtin:
		return v
	}
	f.bad("value %s (%T) not available", v.Name(), v)
	return nil
}

func (f *frame) term(v ssa.Value) Term {
	x := f.value(v)
	t, ok := x.(Term)
	if !ok {
		if fr, ok := x.(*FuncRef); ok {
			return f.u.funcIdent(fr.Fn)
		}
		if cl, ok := x.(*Closure); ok {
			return f.u.funcIdent(cl.Fn)
		}
		f.bad("value %s is not an SMT term (%T)", v.Name(), x)
	}
	return t
}

func (u *Unit) funcIdent(fn *ssa.Function) Term {
	id := u.eng.funcID(fn)
	return Term{fmt.Sprint(id), &Sort{K: KFunc, Go: fn.Signature}}
}

func (u *Unit) constVal(c constant.Value, t types.Type) Val {
	s := u.tc.sortOf(t)
	if c == nil {
		return u.tc.zero(s)
	}
	switch s.K {
	case KBool:
		return Term{fmt.Sprint(constant.BoolVal(c)), s}
	case KInt:
		bi, _ := new(big.Int).SetString(constant.ToInt(c).ExactString(), 10)
		t := intConst(bi)
		t.T = s
		return t
	case KBV:
		bi, _ := new(big.Int).SetString(constant.ToInt(c).ExactString(), 10)
		return bvConst(bi, s)
	case KReal:
		r := constant.ToFloat(c)
		num := constant.Num(r).ExactString()
		den := constant.Denom(r).ExactString()
		neg := strings.HasPrefix(num, "-")
		num = strings.TrimPrefix(num, "-")
		str := "(/ " + num + ".0 " + den + ".0)"
		if neg {
			str = "(- " + str + ")"
		}
		return Term{str, s}
	case KStr:
		return u.strConst(constant.StringVal(c))
	}
	panic(unsupported{fmt.Sprintf("constant of type %s", t)})
}

func (u *Unit) strConst(v string) Term {
	arr := "((as const (Array Int (_ BitVec 8))) #x00)"
	for i := 0; i < len(v); i++ {
		arr = fmt.Sprintf("(store %s %d #x%02x)", arr, i, v[i])
	}
	return Term{fmt.Sprintf("(mk-str %s %d)", arr, len(v)), sStr}
}

// ---------------------------------------------------------------- instructions

func (f *frame) execInstr(ins ssa.Instruction) {
	u := f.u
	switch ins := ins.(type) {
	case *ssa.DebugRef:
		return
	case *ssa.Alloc:
		el := ins.Type().(*types.Pointer).Elem()
		r := u.alloc(f.cur, ins.Type())
		z := u.tc.zero(u.tc.sortOf(el))
		u.store(f.cur, r, z)
		if _, isStruct := el.Underlying().(*types.Struct); isStruct {
			u.zeroGhostFields(f.cur, r)
		}
		f.vals[ins] = r
	case *ssa.Store:
		p := f.value(ins.Addr)
		f.checkNil(p, "store")
		f.u.store(f.cur, p, f.asTerm(ins.Val, f.value(ins.Val)))
	case *ssa.UnOp:
		f.vals[ins] = f.unop(ins)
	case *ssa.BinOp:
		x, y := f.term(ins.X), f.term(ins.Y)
		t := f.binop(ins.Op, x, y, u.tc.sortOf(ins.Type()), ins)
		f.vals[ins] = u.define(f.key+"_"+ins.Name(), t)
	case *ssa.FieldAddr:
		base := f.value(ins.X)
		pt := ins.X.Type().Underlying().(*types.Pointer).Elem()
		f.checkNil(base, "field")
		f.vals[ins] = &PtrPath{Kind: "field", Base: base, Field: ins.Field, Struct: pt}
	case *ssa.Field:
		sv := f.term(ins.X)
		sn := u.tc.structName(ins.X.Type())
		fs := u.tc.sortOf(ins.Type())
		f.vals[ins] = Term{"(" + u.tc.fieldSel(sn, ins.Field) + " " + sv.S + ")", fs}
	case *ssa.IndexAddr:
		base := f.value(ins.X)
		idx := f.intTerm(f.term(ins.Index))
		var ln Term
		var elemT types.Type
		switch xt := ins.X.Type().Underlying().(type) {
		case *types.Slice:
			ln = sliceLen(base.(Term))
			elemT = xt.Elem()
		case *types.Pointer:
			at := xt.Elem().Underlying().(*types.Array)
			ln = Term{fmt.Sprint(at.Len()), sInt}
			elemT = at.Elem()
			f.checkNil(base, "index")
		default:
			f.bad("IndexAddr on %s", ins.X.Type())
		}
		f.boundsCheck(idx, ln, ins)
		f.vals[ins] = &PtrPath{Kind: "elem", Base: base, Idx: idx, ElemT: elemT}
	case *ssa.Index:
		base := f.term(ins.X)
		idx := f.intTerm(f.term(ins.Index))
		switch xt := ins.X.Type().Underlying().(type) {
		case *types.Array:
			f.boundsCheck(idx, Term{fmt.Sprint(xt.Len()), sInt}, ins)
			f.vals[ins] = sel(base, idx, u.tc.sortOf(ins.Type()))
		case *types.Basic: // string
			f.boundsCheck(idx, Term{"(str-len " + base.S + ")", sInt}, ins)
			f.vals[ins] = sel(Term{"(str-arr " + base.S + ")", nil}, idx, u.tc.sortOf(ins.Type()))
		default:
			f.bad("Index on %s", ins.X.Type())
		}
	case *ssa.Slice:
		f.vals[ins] = f.sliceOp(ins)
	case *ssa.MakeSlice:
		ln := f.intTerm(f.term(ins.Len))
		cp := f.intTerm(f.term(ins.Cap))
		u.oblige(f.key, "safe.make", "", f.curReach, and(le(Term{"0", sInt}, ln), le(ln, cp)), f.pos(ins), "")
		el := ins.Type().Underlying().(*types.Slice).Elem()
		r := u.alloc(f.cur, types.NewPointer(types.NewArray(el, 0)))
		hn, hs, es := u.elemHeapName(el)
		h := u.heap(f.cur, hn, hs)
		zarr := fmt.Sprintf("((as const (Array Int %s)) %s)", u.tc.smt(es), u.tc.zero(es).S)
		u.setHeap(f.cur, hn, hs, sto(h, r, Term{zarr, nil}))
		u.bumpAlloc(f.cur, cp)
		f.vals[ins] = u.define(f.key+"_"+ins.Name(), mkSlice(u, r, Term{"0", sInt}, ln, cp, ins.Type()))
	case *ssa.Convert:
		f.vals[ins] = f.convert(ins)
	case *ssa.ChangeType:
		v := f.value(ins.X)
		if t, ok := v.(Term); ok {
			ns := u.tc.sortOf(ins.Type())
			f.vals[ins] = Term{t.S, ns}
		} else {
			f.vals[ins] = v
		}
	case *ssa.Phi:
		// handled at block entry
	case *ssa.Extract:
		tv := f.value(ins.Tuple)
		tp, ok := tv.(Tuple)
		if !ok {
			f.bad("extract from non-tuple %T", tv)
		}
		f.vals[ins] = tp[ins.Index]
	case *ssa.Call:
		res := f.call(ins, ins.Common())
		if res != nil {
			f.vals[ins] = res
		}
	case *ssa.MakeClosure:
		var bs []Val
		for _, b := range ins.Bindings {
			bs = append(bs, f.value(b))
		}
		f.vals[ins] = &Closure{Fn: ins.Fn.(*ssa.Function), Bindings: bs}
	case *ssa.MakeInterface:
		f.vals[ins] = f.makeInterface(ins)
	case *ssa.TypeAssert:
		f.vals[ins] = f.typeAssert(ins)
	case *ssa.ChangeInterface:
		xv := f.value(ins.X)
		if xt, ok := xv.(Term); ok {
			ts := u.tc.sortOf(ins.Type())
			if xt.T.K == KErr && ts.K == KIface {
				// an error value seen as a general interface: one tag for all error implementations
				tag := u.eng.typeTagByKey("error-value")
				xv = u.define(f.key+"_"+ins.Name(), Term{fmt.Sprintf("(ite (= %s 0) (mk-iface 0 0 (_ bv0 64)) (mk-iface %d %s (_ bv0 64)))", xt.S, tag, xt.S), ts})
			} else if xt.T.K == KIface && ts.K == KErr {
				f.bad("conversion of a general interface value to error")
			}
		}
		f.vals[ins] = xv
	case *ssa.Lookup:
		f.vals[ins] = f.lookup(ins)
	case *ssa.If:
		c := f.term(ins.Cond)
		b := f.curBlock
		if b.Succs[0] == b.Succs[1] {
			f.setEdge(b, b.Succs[0], f.curReach)
		} else {
			f.setEdge(b, b.Succs[0], and(f.curReach, c))
			f.setEdge(b, b.Succs[1], and(f.curReach, not(c)))
		}
	case *ssa.Jump:
		f.setEdge(f.curBlock, f.curBlock.Succs[0], f.curReach)
	case *ssa.Return:
		var vs []Val
		for _, r := range ins.Results {
			vs = append(vs, f.value(r))
		}
		f.rets = append(f.rets, retInfo{cond: f.curReach, vals: vs, st: f.cur})
		if f.top && f.curReach.S != "false" {
			// vacuity guard: this return statement is reachable under the contract's assumptions
			u.covCtr++
			u.obls = append(u.obls, &Obligation{Name: fmt.Sprintf("cover.%s.return%d", f.key, u.covCtr), Kind: "cover", Goal: not(f.curReach), NItems: len(u.items), Fn: f.key, Cover: true, Blk: u.curBlk,
				Src: "return at " + f.pos(ins) + " is reachable"})
		}
	case *ssa.Panic:
		u.oblige(f.key, "safe.panic", "", f.curReach, mkBool(false), f.pos(ins)+" explicit panic reachable", "")
		f.curReach = mkBool(false)
	case *ssa.RunDefers:
		f.runDefers()
	case *ssa.Defer:
		f.defers = append(f.defers, ins)
		if f.deferReach == nil {
			f.deferReach = map[*ssa.Defer]Term{}
		}
		f.deferReach[ins] = f.curReach
	case *ssa.MakeMap:
		r := u.alloc(f.cur, types.NewPointer(types.NewArray(types.Typ[types.Int], 0)))
		f.vals[ins] = Term{r.S, u.tc.sortOf(ins.Type())}
		if mt, ok := ins.Type().Underlying().(*types.Map); ok {
			// a new map is empty
			_, has := u.mapFuncs(mt)
			ep := u.ghost(f.cur, "mapEpoch", sInt)
			u.assume(Term{fmt.Sprintf("(forall ((q_k %[1]s)) (! (not (%[2]s %[3]s %[4]s q_k)) :pattern ((%[2]s %[3]s %[4]s q_k))))", u.tc.smt(u.tc.sortOf(mt.Key())), has, r.S, ep.S), sBool})
		}
	case *ssa.MakeChan:
		// a channel is an opaque fresh object (nothing is sent or received in the modelled subset)
		r := u.alloc(f.cur, types.NewPointer(types.NewArray(types.Typ[types.Int], 0)))
		f.vals[ins] = Term{r.S, u.tc.sortOf(ins.Type())}
	case *ssa.Go:
		// the spawned goroutine runs concurrently with the rest of this function; its body is not part of
		// this function's verification (M3: what is proved is the behaviour of the calling goroutine, e.g.
		// its own lock discipline; interference by the spawned goroutine is not modelled)
		u.note("go statement in %s: the spawned goroutine is not modelled (single-goroutine semantics, M3)", f.key)
	case *ssa.MapUpdate:
		f.mapUpdate(ins)
	case *ssa.Range:
		if _, ok := ins.X.Type().Underlying().(*types.Map); !ok {
			f.bad("range over a string not supported")
		}
		f.vals[ins] = f.value(ins.X) // the iterator stands for the map
	case *ssa.Next:
		// one step of a range over a map: either the iteration is over, or some key that is present and its value
		// are delivered. Which keys, in which order, and that every key is visited once are NOT modelled: what is
		// proved about such a loop holds for any sequence of present keys.
		if ins.IsString {
			f.bad("range over a string not supported")
		}
		rg, isRange := ins.Iter.(*ssa.Range)
		mterm, okT := f.value(ins.Iter).(Term)
		if !isRange || !okT {
			f.bad("next on an unsupported iterator")
		}
		mt := rg.X.Type().Underlying().(*types.Map)
		get, has := u.mapFuncs(mt)
		ep := u.ghost(f.cur, "mapEpoch", sInt)
		okv := u.declare(f.key+"_next_ok", sBool)
		k := u.declare(f.key+"_next_k", u.tc.sortOf(mt.Key()))
		v := u.declare(f.key+"_next_v", u.tc.sortOf(mt.Elem()))
		u.assume(implies(okv, Term{fmt.Sprintf("(and (%s %s %s %s) (= %s (%s %s %s %s)))", has, mterm.S, ep.S, k.S, v.S, get, mterm.S, ep.S, k.S), sBool}))
		u.note("range over a map in %s: any sequence of present keys (order, completeness and termination of the iteration are not modelled)", f.key)
		f.vals[ins] = Tuple{okv, k, v}
	default:
		f.bad("unsupported instruction %T: %s", ins, ins)
	}
}

func (f *frame) pos(ins ssa.Instruction) string {
	p := ins.Pos()
	if !p.IsValid() {
		if ins.Block() != nil {
			for _, i2 := range ins.Block().Instrs {
				if i2.Pos().IsValid() {
					p = i2.Pos()
					break
				}
			}
		}
	}
	if !p.IsValid() {
		return f.key
	}
	pp := f.fn.Prog.Fset.Position(p)
	fn := pp.Filename
	if i := strings.Index(fn, "/v2/"); i >= 0 {
		fn = fn[i+1:]
	}
	return fmt.Sprintf("%s:%d", fn, pp.Line)
}

func (f *frame) asTerm(v ssa.Value, x Val) Term {
	switch x := x.(type) {
	case Term:
		return x
	case *FuncRef:
		return f.u.funcIdent(x.Fn)
	case *Closure:
		f.u.eng.closures[f.u.eng.funcID(x.Fn)] = x
		return f.u.funcIdent(x.Fn)
	}
	f.bad("cannot store non-term value %T (%s)", x, v.Name())
	return Term{}
}

func (f *frame) checkNil(p Val, what string) {
	t, ok := p.(Term)
	if !ok || t.T.K != KRef {
		return
	}
	if f.u.nonNil[t.S] {
		return // fresh allocation
	}
	f.u.oblige(f.key, "safe.nil", "", f.curReach, Term{"(not (= " + t.S + " 0))", sBool}, f.curPos+" "+f.key+" nil dereference ("+what+")", "")
}

func (f *frame) boundsCheck(idx, ln Term, ins ssa.Instruction) {
	f.u.oblige(f.key, "safe.bounds", "", f.curReach, and(le(Term{"0", sInt}, idx), lt(idx, ln)), f.pos(ins)+" index in range", "")
}

// intTerm converts an index/length value to a mathematical integer.
func (f *frame) intTerm(t Term) Term {
	return f.u.toInt(t)
}

func (u *Unit) toInt(t Term) Term {
	switch t.T.K {
	case KInt:
		return t
	case KErr:
		return Term{t.S, sInt} // the identity number of an error value
	case KBV:
		if in, ok := u.zextOf[t.S]; ok {
			return u.toInt(in)
		}
		if strings.HasPrefix(t.S, "(_ bv") {
			parts := strings.Fields(strings.Trim(t.S, "()"))
			vv, _ := new(big.Int).SetString(strings.TrimPrefix(parts[1], "bv"), 10)
			if t.T.Signed && vv.Bit(t.T.W-1) == 1 {
				vv.Sub(vv, new(big.Int).Lsh(big.NewInt(1), uint(t.T.W)))
			}
			return intConst(vv)
		}
		if os.Getenv("GOVC_NOCONG") == "" && !strings.Contains(t.S, "q_") && !strings.Contains(t.S, "p_") {
			// congruence of the conversion, spelled out pairwise (the solvers do not apply it to bv2nat)
			for _, y := range u.toIntSeen {
				if y.T.W == t.T.W && y.S != t.S {
					u.bridgeFact(fmt.Sprintf("(=> (= %s %s) (= (bv2nat %s) (bv2nat %s)))", t.S, y.S, t.S, y.S))
				}
			}
			dup := false
			for _, y := range u.toIntSeen {
				if y.S == t.S {
					dup = true
				}
			}
			if !dup && len(u.toIntSeen) < 40 {
				u.toIntSeen = append(u.toIntSeen, t)
			}
		}
		if os.Getenv("GOVC_NORANGE") == "" {
			// the range of a conversion is a theory fact the solvers are slow to find
			u.bridgeFact(fmt.Sprintf("(and (<= 0 (bv2nat %[1]s)) (< (bv2nat %[1]s) %[2]s))", t.S, new(big.Int).Lsh(big.NewInt(1), uint(t.T.W)).String()))
		}
		if os.Getenv("GOVC_BRIDGE2") != "" {
			u.bridgeFact(fmt.Sprintf("(and (<= 0 (bv2nat %[1]s)) (< (bv2nat %[1]s) %[2]s) (= ((_ int2bv %[3]d) (bv2nat %[1]s)) %[1]s))", t.S, new(big.Int).Lsh(big.NewInt(1), uint(t.T.W)).String(), t.T.W))
		}
		if t.T.Signed {
			return Term{fmt.Sprintf("(ite (bvslt %s (_ bv0 %d)) (- (bv2nat %s) %s) (bv2nat %s))", t.S, t.T.W, t.S,
				new(big.Int).Lsh(big.NewInt(1), uint(t.T.W)).String(), t.S), sInt}
		}
		return Term{"(bv2nat " + t.S + ")", sInt}
	}
	panic(unsupported{"toInt of sort kind " + fmt.Sprint(t.T.K)})
}

func (u *Unit) toBV(t Term, s *Sort) Term {
	switch t.T.K {
	case KBV:
		return u.bvResize(t, s)
	case KInt:
		if n, ok := new(big.Int).SetString(t.S, 10); ok {
			return bvConst(n, s)
		}
		u.bridgeFact(fmt.Sprintf("(=> (and (<= 0 %[1]s) (< %[1]s %[2]s)) (= (bv2nat ((_ int2bv %[3]d) %[1]s)) %[1]s))", t.S, new(big.Int).Lsh(big.NewInt(1), uint(s.W)).String(), s.W))
		// an integer that equals the value of a fixed-width operand converts back to that operand (the solvers
		// do not apply congruence to int2bv)
		for _, pr := range u.intOf {
			if pr[1].T.W == s.W && pr[0].S != t.S {
				u.bridgeFact(fmt.Sprintf("(=> (= %s %s) (= ((_ int2bv %d) %s) %s))", t.S, pr[0].S, s.W, t.S, pr[1].S))
			}
		}
		// int2bv is a ring homomorphism: spell it out for a top-level sum or difference
		if sx, err := parseSexprs(t.S); err == nil && len(sx) == 1 && len(sx[0].list) == 3 && (sx[0].list[0].atom == "+" || sx[0].list[0].atom == "-") {
			op := "bvadd"
			if sx[0].list[0].atom == "-" {
				op = "bvsub"
			}
			a, b := sx[0].list[1].String(), sx[0].list[2].String()
			u.bridgeFact(fmt.Sprintf("(= ((_ int2bv %[1]d) %[2]s) (%[3]s ((_ int2bv %[1]d) %[4]s) ((_ int2bv %[1]d) %[5]s)))", s.W, t.S, op, a, b))
		}
		return Term{fmt.Sprintf("((_ int2bv %d) %s)", s.W, t.S), s}
	}
	panic(unsupported{"toBV of sort kind " + fmt.Sprint(t.T.K)})
}

// bridgeFact records a tautology about an int2bv / bv2nat pair (it spares the solver from rediscovering
// the inverse relation). Terms that mention quantified variables are skipped.
func (u *Unit) bridgeFact(f string) {
	if strings.Contains(f, "q_") || strings.Contains(f, "p_") || os.Getenv("GOVC_NOBRIDGE") != "" {
		return
	}
	if u.bridge == nil {
		u.bridge = map[string]bool{}
	}
	if u.bridge[f] {
		return
	}
	u.bridge[f] = true
	u.items = append(u.items, "(assert "+f+")")
}

func (u *Unit) bvResize(t Term, s *Sort) Term {
	switch {
	case t.T.W == s.W:
		return Term{t.S, s}
	case t.T.W > s.W:
		return Term{fmt.Sprintf("((_ extract %d 0) %s)", s.W-1, t.S), s}
	default:
		if t.T.Signed {
			return Term{fmt.Sprintf("((_ sign_extend %d) %s)", s.W-t.T.W, t.S), s}
		}
		return Term{fmt.Sprintf("((_ zero_extend %d) %s)", s.W-t.T.W, t.S), s}
	}
}

func (f *frame) unop(ins *ssa.UnOp) Val {
	u := f.u
	switch ins.Op {
	case token.MUL: // load
		p := f.value(ins.X)
		f.checkNil(p, "load")
		if g, ok := p.(*PtrPath); ok && g.Kind == "global" {
			if v, ok := u.eng.globalValue(u, g.Global); ok {
				return v
			}
			if isErrorType(g.Global.Type().(*types.Pointer).Elem()) && !u.eng.globalReassigned(g.Global) {
				u.note("M5: package-level error variables are distinct non-nil constants (no store to them outside init; scanned)")
				return u.eng.errConst(g.Global.Pkg.Pkg.Name() + "." + g.Global.Name())
			}
		}
		v := u.define(f.key+"_"+ins.Name(), u.load(f.cur, p))
		u.assumeLive(f.cur, v)
		if g, ok := p.(*PtrPath); ok && g.Kind == "global" {
			gname := g.Global.Pkg.Pkg.Name() + "." + g.Global.Name()
			if inv, ok := u.eng.globalInv[gname]; ok && !u.eng.globalReassigned(g.Global) {
				u.note("M5: package variable " + gname + " keeps its initial content (assumed invariant: " + inv.Src + ")")
				env := &SpecEnv{u: u, vars: map[string]Val{g.Global.Name(): v}, st: f.cur, pkg: u.eng.globalInvPkg[gname], bound: map[string]Term{}, ctx: "globalinv " + gname}
				u.assume(implies(f.curReach, env.evalBool(inv.X)))
			}
		}
		return v
	case token.NOT:
		return not(f.term(ins.X))
	case token.SUB:
		x := f.term(ins.X)
		switch x.T.K {
		case KInt:
			return Term{"(- " + x.S + ")", x.T}
		case KBV:
			return Term{"(bvneg " + x.S + ")", x.T}
		case KReal:
			return Term{"(- " + x.S + ")", x.T}
		}
	case token.XOR:
		x := f.term(ins.X)
		if x.T.K == KBV {
			return Term{"(bvnot " + x.S + ")", x.T}
		}
	}
	f.bad("unsupported unary op %s on %s", ins.Op, ins.X.Type())
	return nil
}

// zeroGhostFields: the ghost fields of a freshly allocated object start at their zero values.
func (u *Unit) zeroGhostFields(st *State, r Term) {
	for _, name := range sortedKeys(u.eng.ghostFields) {
		gs := u.eng.ghostFields[name]
		hn := "GF." + name
		hs := "(Array Int " + u.tc.smt(gs) + ")"
		h := u.heap(st, hn, hs)
		var z Term
		if gs.K == KArray {
			z = Term{"((as const (Array Int (_ BitVec 8))) #x00)", gs}
		} else {
			z = u.tc.zero(gs)
		}
		u.setHeap(st, hn, hs, sto(h, r, z))
	}
}

// assumeLive: a slice or pointer value that exists refers to an object below the allocation frontier.
func (u *Unit) assumeLive(st *State, v Term) {
	if v.T == nil {
		return
	}
	switch v.T.K {
	case KSlice:
		u.assume(u.wfSlice(v))
		u.assume(lt(sliceRef(v), u.nextRef(st)))
	case KRef:
		u.assume(and(le(Term{"0", sInt}, v), lt(v, u.nextRef(st))))
	case KIface:
		u.assume(Term{"(and (<= 0 (i-tag " + v.S + ")) (<= 0 (i-val " + v.S + ")) (< (i-val " + v.S + ") " + u.nextRef(st).S + ") (=> (= (i-tag " + v.S + ") 0) (= (i-val " + v.S + ") 0)))", sBool})
	case KStruct:
		// the references held in the fields of a struct value exist, too
		if stt, ok := v.T.Go.Underlying().(*types.Struct); ok && u.liveDepth < 3 {
			u.liveDepth++
			sn := u.tc.structName(v.T.Go)
			for i := 0; i < stt.NumFields(); i++ {
				fs := u.tc.sortOf(stt.Field(i).Type())
				switch fs.K {
				case KSlice, KRef, KIface, KStruct:
					u.assumeLive(st, Term{"(" + u.tc.fieldSel(sn, i) + " " + v.S + ")", fs})
				}
			}
			u.liveDepth--
		}
	}
}

func (u *Unit) wfSlice(s Term) Term {
	return Term{fmt.Sprintf("(and (<= 0 (s-ref %[1]s)) (<= 0 (s-off %[1]s)) (<= 0 (s-len %[1]s)) (<= (s-len %[1]s) (s-cap %[1]s)) (=> (= (s-ref %[1]s) 0) (= (s-cap %[1]s) 0)))", s.S), sBool}
}

func (f *frame) binop(op token.Token, x, y Term, rs *Sort, ins ssa.Instruction) Term {
	u := f.u
	switch op {
	case token.EQL, token.NEQ:
		var e Term
		if x.T.K == KSlice || y.T.K == KSlice {
			// only comparison with nil is legal
			s := x
			if strings.Contains(x.S, "mk-slice 0 0 0 0") {
				s = y
			}
			e = Term{"(= (s-ref " + s.S + ") 0)", sBool}
		} else if x.T.K == KStr {
			e = u.strEq(x, y)
		} else if x.T.K == KIface && y.T.K == KIface {
			switch {
			case strings.HasPrefix(y.S, "(mk-iface 0 0 "):
				e = Term{"(= (i-tag " + x.S + ") 0)", sBool}
			case strings.HasPrefix(x.S, "(mk-iface 0 0 "):
				e = Term{"(= (i-tag " + y.S + ") 0)", sBool}
			default:
				e = eq(x, y)
			}
		} else if at, ok := arrayOf(x.T); ok && at.Len() <= 16 {
			// Go compares arrays element by element over their length (the SMT arrays are total)
			var parts []Term
			es := u.tc.sortOf(at.Elem())
			for i := int64(0); i < at.Len(); i++ {
				ix := Term{fmt.Sprint(i), sInt}
				parts = append(parts, eq(sel(x, ix, es), sel(y, ix, es)))
			}
			e = and(parts...)
		} else {
			e = eq(x, y)
		}
		if op == token.NEQ {
			return not(e)
		}
		return e
	}
	switch x.T.K {
	case KBool:
		switch op {
		case token.AND, token.LAND:
			return and(x, y)
		case token.OR, token.LOR:
			return or(x, y)
		}
	case KInt:
		switch op {
		case token.ADD:
			return Term{"(+ " + x.S + " " + y.S + ")", rs}
		case token.SUB:
			return Term{"(- " + x.S + " " + y.S + ")", rs}
		case token.MUL:
			return Term{"(* " + x.S + " " + y.S + ")", rs}
		case token.QUO:
			u.oblige(f.key, "safe.div", "", f.curReach, not(eq(y, Term{"0", sInt})), f.pos(ins)+" division by zero", "")
			return Term{goDiv(x.S, y.S), rs}
		case token.REM:
			u.oblige(f.key, "safe.div", "", f.curReach, not(eq(y, Term{"0", sInt})), f.pos(ins)+" division by zero", "")
			return Term{goRem(x.S, y.S), rs}
		case token.LSS:
			return lt(x, y)
		case token.LEQ:
			return le(x, y)
		case token.GTR:
			return lt(y, x)
		case token.GEQ:
			return le(y, x)
		}
	case KReal:
		switch op {
		case token.ADD:
			return Term{"(+ " + x.S + " " + y.S + ")", rs}
		case token.SUB:
			return Term{"(- " + x.S + " " + y.S + ")", rs}
		case token.MUL:
			return Term{"(* " + x.S + " " + y.S + ")", rs}
		case token.QUO:
			return Term{"(/ " + x.S + " " + y.S + ")", rs}
		case token.LSS:
			return lt(x, y)
		case token.LEQ:
			return le(x, y)
		case token.GTR:
			return lt(y, x)
		case token.GEQ:
			return le(y, x)
		}
	case KStr:
		if op == token.ADD {
			return u.strConcat(x, y)
		}
	case KBV:
		sg := x.T.Signed
		bin := func(o string) Term { return Term{"(" + o + " " + x.S + " " + y.S + ")", rs} }
		cmp := func(us, ss string) Term {
			if sg {
				return Term{"(" + ss + " " + x.S + " " + y.S + ")", sBool}
			}
			return Term{"(" + us + " " + x.S + " " + y.S + ")", sBool}
		}
		switch op {
		case token.ADD:
			return bin("bvadd")
		case token.SUB:
			return bin("bvsub")
		case token.MUL:
			return bin("bvmul")
		case token.AND:
			return bin("bvand")
		case token.OR:
			return bin("bvor")
		case token.XOR:
			return bin("bvxor")
		case token.AND_NOT:
			return Term{"(bvand " + x.S + " (bvnot " + y.S + "))", rs}
		case token.QUO:
			u.oblige(f.key, "safe.div", "", f.curReach, not(eq(y, bvConst(big.NewInt(0), y.T))), f.pos(ins)+" division by zero", "")
			if sg {
				return bin("bvsdiv")
			}
			return bin("bvudiv")
		case token.REM:
			u.oblige(f.key, "safe.div", "", f.curReach, not(eq(y, bvConst(big.NewInt(0), y.T))), f.pos(ins)+" division by zero", "")
			if sg {
				return bin("bvsrem")
			}
			return bin("bvurem")
		case token.SHL, token.SHR:
			amt := u.shiftAmount(y, x.T)
			o := "bvshl"
			if op == token.SHR {
				o = "bvlshr"
				if sg {
					o = "bvashr"
				}
			}
			return Term{"(" + o + " " + x.S + " " + amt.S + ")", rs}
		case token.LSS:
			return cmp("bvult", "bvslt")
		case token.LEQ:
			return cmp("bvule", "bvsle")
		case token.GTR:
			return cmp("bvugt", "bvsgt")
		case token.GEQ:
			return cmp("bvuge", "bvsge")
		}
	}
	f.bad("unsupported binary op %s on sort kind %d", op, x.T.K)
	return Term{}
}

func goDiv(x, y string) string {
	// Go truncates toward zero; SMT div is floor for positive divisor
	return fmt.Sprintf("(ite (>= %[1]s 0) (ite (> %[2]s 0) (div %[1]s %[2]s) (- (div %[1]s (- %[2]s)))) (ite (> %[2]s 0) (- (div (- %[1]s) %[2]s)) (div (- %[1]s) (- %[2]s))))", x, y)
}

func goRem(x, y string) string {
	return fmt.Sprintf("(- %s (* %s %s))", x, y, goDiv(x, y))
}

// shiftAmount converts a shift count of any integer sort to the width of the shifted value
// (saturating, so that over-long shifts give 0 / sign fill as in Go).
func (u *Unit) shiftAmount(y Term, xs *Sort) Term {
	w := xs.W
	switch y.T.K {
	case KInt:
		if n, ok := new(big.Int).SetString(y.S, 10); ok {
			if n.Cmp(big.NewInt(int64(w))) >= 0 {
				n = big.NewInt(int64(w))
			}
			return bvConst(n, xs)
		}
		return Term{fmt.Sprintf("(ite (>= %s %d) (_ bv%d %d) ((_ int2bv %d) %s))", y.S, w, w, w, w, y.S), xs}
	case KBV:
		if y.T.W == w {
			return Term{y.S, xs}
		}
		if y.T.W < w {
			return Term{fmt.Sprintf("((_ zero_extend %d) %s)", w-y.T.W, y.S), xs}
		}
		return Term{fmt.Sprintf("(ite (bvuge %s (_ bv%d %d)) (_ bv%d %d) ((_ extract %d 0) %s))", y.S, w, y.T.W, w, w, w-1, y.S), xs}
	}
	panic(unsupported{"shift amount sort"})
}

func (f *frame) convert(ins *ssa.Convert) Val {
	u := f.u
	x := f.term(ins.X)
	ts := u.tc.sortOf(ins.Type())
	switch {
	case ts.K == KBV && (x.T.K == KBV || x.T.K == KInt):
		r := u.define(f.key+"_"+ins.Name(), u.toBV(x, ts))
		if x.T.K == KBV && !x.T.Signed && x.T.W < ts.W {
			// a zero extension has the value of its operand: remember it so that a later conversion to a
			// mathematical integer is taken of the narrow operand (no facts about bv2nat are needed then)
			if u.zextOf == nil {
				u.zextOf = map[string]Term{}
			}
			u.zextOf[r.S] = x
		}
		return r
	case ts.K == KInt && x.T.K == KBV:
		t := u.toInt(x)
		t.T = ts
		r := u.define(f.key+"_"+ins.Name(), t)
		if !x.T.Signed {
			u.intOf = append(u.intOf, [2]Term{r, x})
		}
		if !x.T.Signed && os.Getenv("GOVC_INV") != "" {
			// converting back gives the original value (only stated for conversions the program performs)
			u.bridgeFact(fmt.Sprintf("(= ((_ int2bv %d) %s) %s)", x.T.W, r.S, x.S))
		}
		return r
	case ts.K == KInt && x.T.K == KInt:
		return Term{x.S, ts}
	case ts.K == KReal && x.T.K == KInt:
		return Term{"(to_real " + x.S + ")", ts}
	case ts.K == KReal && x.T.K == KBV:
		return Term{"(to_real " + u.toInt(x).S + ")", ts}
	case ts.K == KReal && x.T.K == KReal:
		return Term{x.S, ts}
	case (ts.K == KInt || ts.K == KBV) && x.T.K == KReal:
		// truncation toward zero
		tr := fmt.Sprintf("(ite (>= %[1]s 0.0) (to_int %[1]s) (- (to_int (- %[1]s))))", x.S)
		if ts.K == KInt {
			return u.define(f.key+"_"+ins.Name(), Term{tr, ts})
		}
		// the float -> fixed-width step is axiomatised: an uninterpreted function that agrees with the
		// mathematical value whenever that value is an integer in range (Go leaves the rest implementation-defined)
		u.note("M4: float64 modelled as real numbers; float->uintN conversion is an uninterpreted function equal to the value for in-range integral arguments")
		fn := fmt.Sprintf("f2bv%d", ts.W)
		u.useSpec(fn)
		t := u.define(f.key+"_"+ins.Name(), Term{"(" + fn + " " + x.S + ")", ts})
		if !ts.Signed {
			u.assume(Term{fmt.Sprintf("(=> (and (is_int %[1]s) (<= 0.0 %[1]s) (< %[1]s %[2]s.0)) (= (bv2nat %[3]s) (to_int %[1]s)))", x.S, new(big.Int).Lsh(big.NewInt(1), uint(ts.W)).String(), t.S), sBool})
		} else {
			// signed target: stated for non-negative integral values below 2^(w-1) (the sign bit stays clear)
			u.assume(Term{fmt.Sprintf("(=> (and (is_int %[1]s) (<= 0.0 %[1]s) (< %[1]s %[2]s.0)) (and (= (bv2nat %[3]s) (to_int %[1]s)) (bvsge %[3]s (_ bv0 %[4]d))))", x.S, new(big.Int).Lsh(big.NewInt(1), uint(ts.W-1)).String(), t.S, ts.W), sBool})
		}
		_ = tr
		return t
	case ts.K == KStr && x.T.K == KSlice:
		return u.sliceToStr(f.cur, x)
	case ts.K == KSlice && x.T.K == KStr:
		return u.strToSlice(f.cur, x, ins.Type())
	case ts.K == KStr && x.T.K == KStr:
		return x
	case ts.K == KSlice && x.T.K == KSlice:
		return Term{x.S, ts}
	case ts.K == KRef && x.T.K == KRef:
		return Term{x.S, ts}
	}
	f.bad("unsupported conversion %s -> %s", ins.X.Type(), ins.Type())
	return nil
}

func (f *frame) sliceOp(ins *ssa.Slice) Val {
	u := f.u
	x := f.value(ins.X)
	zero := Term{"0", sInt}
	var lo, hi, mx Term
	lo = zero
	if ins.Low != nil {
		lo = f.intTerm(f.term(ins.Low))
	}
	switch xt := ins.X.Type().Underlying().(type) {
	case *types.Slice:
		s := x.(Term)
		hi = sliceLen(s)
		if ins.High != nil {
			hi = f.intTerm(f.term(ins.High))
		}
		mx = sliceCap(s)
		if ins.Max != nil {
			mx = f.intTerm(f.term(ins.Max))
		}
		u.oblige(f.key, "safe.bounds", "", f.curReach, and(le(zero, lo), le(lo, hi), le(hi, mx), le(mx, sliceCap(s))), f.pos(ins)+" slice bounds", "")
		return u.define(f.key+"_"+ins.Name(), mkSlice(u, sliceRef(s), add(sliceOff(s), lo), sub(hi, lo), sub(mx, lo), ins.Type()))
	case *types.Pointer: // pointer to array
		at := xt.Elem().Underlying().(*types.Array)
		n := Term{fmt.Sprint(at.Len()), sInt}
		hi = n
		if ins.High != nil {
			hi = f.intTerm(f.term(ins.High))
		}
		mx = n
		if ins.Max != nil {
			mx = f.intTerm(f.term(ins.Max))
		}
		ref, ok := x.(Term)
		if !ok {
			// an array inside a struct (or another array): the slice is taken over a snapshot copy. Sound for
			// code that only reads through the slice; writes through it would not reach the original.
			u.note("slicing an array field takes a snapshot copy (reads only) in " + f.key)
			av := u.load(f.cur, x)
			r := u.alloc(f.cur, ins.X.Type())
			hn, hs, _ := u.elemHeapName(at.Elem())
			u.setHeap(f.cur, hn, hs, sto(u.heap(f.cur, hn, hs), r, av))
			ref = r
		}
		u.oblige(f.key, "safe.bounds", "", f.curReach, and(le(zero, lo), le(lo, hi), le(hi, mx), le(mx, n)), f.pos(ins)+" slice bounds", "")
		return u.define(f.key+"_"+ins.Name(), mkSlice(u, ref, lo, sub(hi, lo), sub(mx, lo), ins.Type()))
	case *types.Basic: // string
		s := x.(Term)
		ln := Term{"(str-len " + s.S + ")", sInt}
		hi = ln
		if ins.High != nil {
			hi = f.intTerm(f.term(ins.High))
		}
		u.oblige(f.key, "safe.bounds", "", f.curReach, and(le(zero, lo), le(lo, hi), le(hi, ln)), f.pos(ins)+" string slice bounds", "")
		return u.strSub(s, lo, hi)
	}
	f.bad("unsupported slice operand %s", ins.X.Type())
	return nil
}

// bumpAlloc adds n to the ghost allocation counter.
func (u *Unit) bumpAlloc(st *State, n Term) {
	if !u.eng.trackAlloc {
		return
	}
	a := u.ghost(st, "allocated", sInt)
	u.setGhost(st, "allocated", add(a, n))
}

func arrayOf(s *Sort) (*types.Array, bool) {
	if s == nil || s.K != KArray || s.Go == nil {
		return nil, false
	}
	at, ok := s.Go.Underlying().(*types.Array)
	return at, ok
}
