package main

// Parser for the contract / spec expression language.
//
// The syntax is Go expression syntax plus:
//   a ==> b, a <==> b        implication / equivalence (lowest precedence, ==> right assoc)
//   c ? a : b                conditional
//   forall i int :: e        quantifiers (also exists); several binders: forall i int, j int :: e
//   old(e)                   value of e in the pre-state
//   result, result0, result1 or the named results
//   s[a:b] only inside seqeq / builtin calls
//
// Everything else (typing, name resolution) happens in speceval.go.

import (
	"fmt"
	"strings"
	"unicode"
)

type SX struct {
	Op   string // num, real, str, char, ident, bin, un, call, index, slice, field, forall, exists, ite
	Tok  string // operator / identifier / literal text
	Args []*SX
	// quantifier binders
	BindNames []string
	BindTypes []string
	Pats      []*SX // explicit triggers of a quantifier
	Pos       int
}

func (e *SX) String() string {
	switch e.Op {
	case "num", "real", "ident", "char":
		return e.Tok
	case "str":
		return fmt.Sprintf("%q", e.Tok)
	case "bin":
		return "(" + e.Args[0].String() + " " + e.Tok + " " + e.Args[1].String() + ")"
	case "un":
		return e.Tok + e.Args[0].String()
	case "call":
		var a []string
		for _, x := range e.Args[1:] {
			a = append(a, x.String())
		}
		return e.Args[0].String() + "(" + strings.Join(a, ", ") + ")"
	case "index":
		return e.Args[0].String() + "[" + e.Args[1].String() + "]"
	case "slice":
		lo, hi := "", ""
		if e.Args[1] != nil {
			lo = e.Args[1].String()
		}
		if e.Args[2] != nil {
			hi = e.Args[2].String()
		}
		return e.Args[0].String() + "[" + lo + ":" + hi + "]"
	case "field":
		return e.Args[0].String() + "." + e.Tok
	case "forall", "exists":
		var b []string
		for i := range e.BindNames {
			b = append(b, e.BindNames[i]+" "+e.BindTypes[i])
		}
		return "(" + e.Op + " " + strings.Join(b, ", ") + " :: " + e.Args[0].String() + ")"
	case "ite":
		return "(" + e.Args[0].String() + " ? " + e.Args[1].String() + " : " + e.Args[2].String() + ")"
	}
	return "?" + e.Op
}

type sptok struct {
	kind string // num, real, ident, op, str, char, eof
	text string
	pos  int
}

func lexSpec(s string) ([]sptok, error) {
	var toks []sptok
	i := 0
	for i < len(s) {
		c := rune(s[i])
		if unicode.IsSpace(c) {
			i++
			continue
		}
		start := i
		switch {
		case unicode.IsLetter(c) || c == '_' || c == '#':
			i++
			for i < len(s) && (unicode.IsLetter(rune(s[i])) || unicode.IsDigit(rune(s[i])) || s[i] == '_' || s[i] == '$') {
				i++
			}
			toks = append(toks, sptok{"ident", s[start:i], start})
		case unicode.IsDigit(c):
			isReal := false
			if c == '0' && i+1 < len(s) && (s[i+1] == 'x' || s[i+1] == 'X') {
				i += 2
				for i < len(s) && (isHex(s[i]) || s[i] == '_') {
					i++
				}
			} else {
				for i < len(s) && (unicode.IsDigit(rune(s[i])) || s[i] == '_') {
					i++
				}
				if i+1 < len(s) && s[i] == '.' && unicode.IsDigit(rune(s[i+1])) {
					isReal = true
					i++
					for i < len(s) && unicode.IsDigit(rune(s[i])) {
						i++
					}
				}
			}
			k := "num"
			if isReal {
				k = "real"
			}
			toks = append(toks, sptok{k, strings.ReplaceAll(s[start:i], "_", ""), start})
		case c == '"':
			i++
			var sb strings.Builder
			for i < len(s) && s[i] != '"' {
				if s[i] == '\\' && i+1 < len(s) {
					i++
					switch s[i] {
					case 'n':
						sb.WriteByte('\n')
					case 't':
						sb.WriteByte('\t')
					case 'r':
						sb.WriteByte('\r')
					default:
						sb.WriteByte(s[i])
					}
				} else {
					sb.WriteByte(s[i])
				}
				i++
			}
			i++
			toks = append(toks, sptok{"str", sb.String(), start})
		case c == '\'':
			i++
			var ch byte
			if i < len(s) && s[i] == '\\' {
				i++
				switch s[i] {
				case 'n':
					ch = '\n'
				case 't':
					ch = '\t'
				case 'r':
					ch = '\r'
				default:
					ch = s[i]
				}
			} else if i < len(s) {
				ch = s[i]
			}
			i += 2
			toks = append(toks, sptok{"char", fmt.Sprintf("%d", ch), start})
		default:
			ops := []string{"<==>", "==>", "&&", "||", "==", "!=", "<=", ">=", "<<", ">>", "&^", "::"}
			matched := false
			for _, op := range ops {
				if strings.HasPrefix(s[i:], op) {
					toks = append(toks, sptok{"op", op, start})
					i += len(op)
					matched = true
					break
				}
			}
			if !matched {
				if strings.ContainsRune("+-*/%&|^<>!()[]{}.,:?", c) {
					toks = append(toks, sptok{"op", string(c), start})
					i++
				} else {
					return nil, fmt.Errorf("spec: unexpected character %q at %d in %q", c, i, s)
				}
			}
		}
	}
	toks = append(toks, sptok{"eof", "", len(s)})
	return toks, nil
}

func isHex(b byte) bool {
	return (b >= '0' && b <= '9') || (b >= 'a' && b <= 'f') || (b >= 'A' && b <= 'F')
}

type specParser struct {
	toks []sptok
	p    int
	src  string
}

func (p *specParser) peek() sptok { return p.toks[p.p] }
func (p *specParser) next() sptok  { t := p.toks[p.p]; p.p++; return t }
func (p *specParser) isOp(s string) bool {
	t := p.peek()
	return t.kind == "op" && t.text == s
}
func (p *specParser) expectOp(s string) error {
	if !p.isOp(s) {
		return fmt.Errorf("spec: expected %q at %d in %q (got %q)", s, p.peek().pos, p.src, p.peek().text)
	}
	p.p++
	return nil
}

func ParseSpec(s string) (*SX, error) {
	toks, err := lexSpec(s)
	if err != nil {
		return nil, err
	}
	p := &specParser{toks: toks, src: s}
	e, err := p.parseExpr()
	if err != nil {
		return nil, err
	}
	if p.peek().kind != "eof" {
		return nil, fmt.Errorf("spec: trailing input at %d in %q", p.peek().pos, s)
	}
	return e, nil
}

// expr := quant | iff
func (p *specParser) parseExpr() (*SX, error) {
	t := p.peek()
	if t.kind == "ident" && (t.text == "forall" || t.text == "exists") {
		p.next()
		q := &SX{Op: t.text, Pos: t.pos}
		for {
			n := p.next()
			if n.kind != "ident" {
				return nil, fmt.Errorf("spec: binder name expected at %d in %q", n.pos, p.src)
			}
			ty := p.next()
			if ty.kind != "ident" {
				return nil, fmt.Errorf("spec: binder type expected at %d in %q", ty.pos, p.src)
			}
			q.BindNames = append(q.BindNames, n.text)
			q.BindTypes = append(q.BindTypes, ty.text)
			if p.isOp(",") {
				p.next()
				continue
			}
			break
		}
		// optional explicit triggers:  forall i int {f(i), g(i)} :: body
		if p.isOp("{") {
			p.next()
			for !p.isOp("}") {
				pt, err := p.parseExpr()
				if err != nil {
					return nil, err
				}
				q.Pats = append(q.Pats, pt)
				if p.isOp(",") {
					p.next()
				}
			}
			p.next()
		}
		if err := p.expectOp("::"); err != nil {
			return nil, err
		}
		body, err := p.parseExpr()
		if err != nil {
			return nil, err
		}
		q.Args = []*SX{body}
		return q, nil
	}
	return p.parseIff()
}

func (p *specParser) parseIff() (*SX, error) {
	l, err := p.parseImpl()
	if err != nil {
		return nil, err
	}
	for p.isOp("<==>") {
		t := p.next()
		r, err := p.parseImpl()
		if err != nil {
			return nil, err
		}
		l = &SX{Op: "bin", Tok: "<==>", Args: []*SX{l, r}, Pos: t.pos}
	}
	return l, nil
}

func (p *specParser) parseImpl() (*SX, error) {
	l, err := p.parseCond()
	if err != nil {
		return nil, err
	}
	if p.isOp("==>") {
		t := p.next()
		var r *SX
		// the right-hand side may be a quantifier
		if pk := p.peek(); pk.kind == "ident" && (pk.text == "forall" || pk.text == "exists") {
			r, err = p.parseExpr()
		} else {
			r, err = p.parseImpl()
		}
		if err != nil {
			return nil, err
		}
		return &SX{Op: "bin", Tok: "==>", Args: []*SX{l, r}, Pos: t.pos}, nil
	}
	return l, nil
}

func (p *specParser) parseCond() (*SX, error) {
	c, err := p.parseBin(1)
	if err != nil {
		return nil, err
	}
	if p.isOp("?") {
		t := p.next()
		a, err := p.parseCond()
		if err != nil {
			return nil, err
		}
		if err := p.expectOp(":"); err != nil {
			return nil, err
		}
		b, err := p.parseCond()
		if err != nil {
			return nil, err
		}
		return &SX{Op: "ite", Args: []*SX{c, a, b}, Pos: t.pos}, nil
	}
	return c, nil
}

var binPrec = map[string]int{
	"||": 1, "&&": 2,
	"==": 3, "!=": 3, "<": 3, "<=": 3, ">": 3, ">=": 3,
	"+": 4, "-": 4, "|": 4, "^": 4,
	"*": 5, "/": 5, "%": 5, "<<": 5, ">>": 5, "&": 5, "&^": 5,
}

func (p *specParser) parseBin(minPrec int) (*SX, error) {
	l, err := p.parseUnary()
	if err != nil {
		return nil, err
	}
	for {
		t := p.peek()
		if t.kind != "op" {
			return l, nil
		}
		pr, ok := binPrec[t.text]
		if !ok || pr < minPrec {
			return l, nil
		}
		p.next()
		r, err := p.parseBin(pr + 1)
		if err != nil {
			return nil, err
		}
		l = &SX{Op: "bin", Tok: t.text, Args: []*SX{l, r}, Pos: t.pos}
	}
}

func (p *specParser) parseUnary() (*SX, error) {
	t := p.peek()
	if t.kind == "op" && (t.text == "!" || t.text == "-" || t.text == "^" || t.text == "*" || t.text == "+") {
		p.next()
		x, err := p.parseUnary()
		if err != nil {
			return nil, err
		}
		if t.text == "+" {
			return x, nil
		}
		return &SX{Op: "un", Tok: t.text, Args: []*SX{x}, Pos: t.pos}, nil
	}
	return p.parsePostfix()
}

func (p *specParser) parsePostfix() (*SX, error) {
	x, err := p.parsePrimary()
	if err != nil {
		return nil, err
	}
	for {
		switch {
		case p.isOp("."):
			p.next()
			n := p.next()
			if n.kind != "ident" {
				return nil, fmt.Errorf("spec: field name expected at %d in %q", n.pos, p.src)
			}
			x = &SX{Op: "field", Tok: n.text, Args: []*SX{x}, Pos: n.pos}
		case p.isOp("("):
			t := p.next()
			args := []*SX{x}
			for !p.isOp(")") {
				a, err := p.parseExpr()
				if err != nil {
					return nil, err
				}
				args = append(args, a)
				if p.isOp(",") {
					p.next()
				} else {
					break
				}
			}
			if err := p.expectOp(")"); err != nil {
				return nil, err
			}
			x = &SX{Op: "call", Args: args, Pos: t.pos}
		case p.isOp("["):
			t := p.next()
			var lo, hi *SX
			if !p.isOp(":") {
				lo, err = p.parseExpr()
				if err != nil {
					return nil, err
				}
			}
			if p.isOp(":") {
				p.next()
				if !p.isOp("]") {
					hi, err = p.parseExpr()
					if err != nil {
						return nil, err
					}
				}
				if err := p.expectOp("]"); err != nil {
					return nil, err
				}
				x = &SX{Op: "slice", Args: []*SX{x, lo, hi}, Pos: t.pos}
			} else {
				if err := p.expectOp("]"); err != nil {
					return nil, err
				}
				x = &SX{Op: "index", Args: []*SX{x, lo}, Pos: t.pos}
			}
		default:
			return x, nil
		}
	}
}

func (p *specParser) parsePrimary() (*SX, error) {
	t := p.next()
	switch t.kind {
	case "num", "real", "str", "char":
		return &SX{Op: t.kind, Tok: t.text, Pos: t.pos}, nil
	case "ident":
		if t.text == "forall" || t.text == "exists" {
			p.p--
			return p.parseExpr()
		}
		return &SX{Op: "ident", Tok: t.text, Pos: t.pos}, nil
	case "op":
		if t.text == "(" {
			e, err := p.parseExpr()
			if err != nil {
				return nil, err
			}
			if err := p.expectOp(")"); err != nil {
				return nil, err
			}
			return e, nil
		}
	}
	return nil, fmt.Errorf("spec: unexpected %q at %d in %q", t.text, t.pos, p.src)
}
