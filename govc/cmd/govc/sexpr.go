package main

import (
	"fmt"
	"math/big"
	"strings"
)

type sx struct {
	atom string
	list []*sx
}

func (s *sx) isAtom() bool { return s.list == nil && s.atom != "" }

func (s *sx) String() string {
	if s.list == nil {
		return s.atom
	}
	var p []string
	for _, c := range s.list {
		p = append(p, c.String())
	}
	return "(" + strings.Join(p, " ") + ")"
}

func parseSexprs(src string) ([]*sx, error) {
	var out []*sx
	i := 0
	var parse func() (*sx, error)
	skip := func() {
		for i < len(src) {
			c := src[i]
			if c == ' ' || c == '\n' || c == '\t' || c == '\r' {
				i++
			} else if c == ';' {
				for i < len(src) && src[i] != '\n' {
					i++
				}
			} else {
				break
			}
		}
	}
	parse = func() (*sx, error) {
		skip()
		if i >= len(src) {
			return nil, fmt.Errorf("eof")
		}
		if src[i] == '(' {
			i++
			n := &sx{list: []*sx{}}
			for {
				skip()
				if i >= len(src) {
					return nil, fmt.Errorf("unbalanced")
				}
				if src[i] == ')' {
					i++
					return n, nil
				}
				c, err := parse()
				if err != nil {
					return nil, err
				}
				n.list = append(n.list, c)
			}
		}
		if src[i] == '|' {
			j := strings.IndexByte(src[i+1:], '|')
			a := src[i : i+j+2]
			i += j + 2
			return &sx{atom: a}, nil
		}
		if src[i] == '"' {
			j := i + 1
			for j < len(src) && src[j] != '"' {
				j++
			}
			a := src[i : j+1]
			i = j + 1
			return &sx{atom: a}, nil
		}
		j := i
		for j < len(src) && !strings.ContainsRune(" \n\t\r()", rune(src[j])) {
			j++
		}
		a := src[i:j]
		i = j
		return &sx{atom: a}, nil
	}
	for {
		skip()
		if i >= len(src) {
			break
		}
		s, err := parse()
		if err != nil {
			return out, err
		}
		out = append(out, s)
	}
	return out, nil
}

// sxInt interprets a model value as an integer (BV values unsigned).
func sxInt(s *sx) (*big.Int, bool) {
	if s.isAtom() {
		a := s.atom
		switch {
		case strings.HasPrefix(a, "#x"):
			v, ok := new(big.Int).SetString(a[2:], 16)
			return v, ok
		case strings.HasPrefix(a, "#b"):
			v, ok := new(big.Int).SetString(a[2:], 2)
			return v, ok
		case a == "true":
			return big.NewInt(1), true
		case a == "false":
			return big.NewInt(0), true
		}
		a = strings.TrimSuffix(a, ".0")
		v, ok := new(big.Int).SetString(a, 10)
		return v, ok
	}
	if len(s.list) == 2 && s.list[0].atom == "-" {
		v, ok := sxInt(s.list[1])
		if !ok {
			return nil, false
		}
		return new(big.Int).Neg(v), true
	}
	if len(s.list) == 3 && s.list[0].atom == "_" && strings.HasPrefix(s.list[1].atom, "bv") {
		v, ok := new(big.Int).SetString(s.list[1].atom[2:], 10)
		return v, ok
	}
	return nil, false
}
