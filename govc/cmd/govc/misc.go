package main

import (
	"os"
	"fmt"
	"go/token"
	"go/types"
	"strings"

	"golang.org/x/tools/go/ssa"
)

type tokenPos = token.Pos

// ---------------------------------------------------------------- strings

func (u *Unit) strEq(a, b Term) Term {
	return Term{fmt.Sprintf("(and (= (str-len %[1]s) (str-len %[2]s)) (forall ((q_i Int)) (=> (and (<= 0 q_i) (< q_i (str-len %[1]s))) (= (select (str-arr %[1]s) q_i) (select (str-arr %[2]s) q_i)))))", a.S, b.S), sBool}
}

func (u *Unit) strConcat(a, b Term) Term {
	r := u.declare("strcat", sStr)
	u.assume(Term{fmt.Sprintf("(= (str-len %s) (+ (str-len %s) (str-len %s)))", r.S, a.S, b.S), sBool})
	u.assume(Term{fmt.Sprintf("(forall ((q_i Int)) (! (=> (and (<= 0 q_i) (< q_i (str-len %[2]s))) (= (select (str-arr %[1]s) q_i) (select (str-arr %[2]s) q_i))) :pattern ((select (str-arr %[1]s) q_i))))", r.S, a.S), sBool})
	u.assume(Term{fmt.Sprintf("(forall ((q_i Int)) (=> (and (<= 0 q_i) (< q_i (str-len %[3]s))) (= (select (str-arr %[1]s) (+ (str-len %[2]s) q_i)) (select (str-arr %[3]s) q_i))))", r.S, a.S, b.S), sBool})
	return r
}

func (u *Unit) strSub(s, lo, hi Term) Term {
	u.useSpec("shift8")
	return u.define("substr", Term{fmt.Sprintf("(mk-str (shift8 (str-arr %s) %s) %s)", s.S, lo.S, sub(hi, lo).S), sStr})
}

func (u *Unit) sliceToStr(st *State, s Term) Term {
	hn, hs, _ := u.elemHeapName(types.Typ[types.Uint8])
	h := u.heap(st, hn, hs)
	u.useSpec("shift8")
	return u.define("str", Term{fmt.Sprintf("(mk-str (shift8 (select %s (s-ref %s)) (s-off %s)) (s-len %s))", h.S, s.S, s.S, s.S), sStr})
}

func (u *Unit) strToSlice(st *State, s Term, goT types.Type) Term {
	el := goT.Underlying().(*types.Slice).Elem()
	r := u.alloc(st, types.NewPointer(types.NewArray(el, 0)))
	hn, hs, _ := u.elemHeapName(el)
	h := u.heap(st, hn, hs)
	u.setHeap(st, hn, hs, sto(h, r, Term{"(str-arr " + s.S + ")", nil}))
	ln := Term{"(str-len " + s.S + ")", sInt}
	u.bumpAlloc(st, ln)
	return u.define("bytes", mkSlice(u, r, Term{"0", sInt}, ln, ln, goT))
}

// ---------------------------------------------------------------- interfaces

// typeTag gives every concrete type that is put into an interface a stable small integer.
func (e *Engine) typeTag(t types.Type) int {
	k := reRune.ReplaceAllString(reByte.ReplaceAllString(types.TypeString(t, nil), "uint8"), "int32")
	if e.typeTags == nil {
		e.typeTags = map[string]int{}
	}
	id, ok := e.typeTags[k]
	if !ok {
		id = len(e.typeTags) + 1
		e.typeTags[k] = id
	}
	return id
}

// typeTagByKey gives a tag for a pseudo type name.
func (e *Engine) typeTagByKey(k string) int {
	if e.typeTags == nil {
		e.typeTags = map[string]int{}
	}
	id, ok := e.typeTags[k]
	if !ok {
		id = len(e.typeTags) + 1
		e.typeTags[k] = id
	}
	return id
}

func (f *frame) makeInterface(ins *ssa.MakeInterface) Val {
	u := f.u
	x := f.value(ins.X)
	its := u.tc.sortOf(ins.Type())
	if its.K == KErr {
		// a concrete error value: non-nil, identity unknown
		e := u.declare("errval", sErr)
		u.assume(Term{"(> " + e.S + " 1000)", sBool})
		return e
	}
	tag := u.eng.typeTag(ins.X.Type())
	xt, ok := x.(Term)
	if !ok {
		f.bad("MakeInterface of non-term value")
	}
	var payload Term
	bvp := "(_ bv0 64)"
	switch xt.T.K {
	case KInt, KRef, KFunc, KMap, KErr:
		payload = Term{xt.S, sInt}
	case KBV:
		// fixed-width values travel as bit-vectors (extended to 64 bits), never through Int
		payload = Term{"0", sInt}
		bvp = u.bvResize(xt, bvSort(64, xt.T.Signed)).S
	case KBool:
		payload = Term{"(ite " + xt.S + " 1 0)", sInt}
	default:
		// box the value
		r := u.alloc(f.cur, types.NewPointer(ins.X.Type()))
		u.store(f.cur, r, xt)
		payload = Term{r.S, sInt}
	}
	res := u.define(f.key+"_"+ins.Name(), Term{fmt.Sprintf("(mk-iface %d %s %s)", tag, payload.S, bvp), its})
	if u.ifaceDyn == nil {
		u.ifaceDyn = map[string]dynInfo{}
	}
	u.ifaceDyn[res.S] = dynInfo{T: ins.X.Type(), V: x}
	return res
}

func (f *frame) typeAssert(ins *ssa.TypeAssert) Val {
	u := f.u
	x := f.term(ins.X)
	if x.T.K != KIface {
		f.bad("type assertion on sort kind %d", x.T.K)
	}
	if _, isIface := ins.AssertedType.Underlying().(*types.Interface); isIface {
		f.bad("type assertion to interface type %s", ins.AssertedType)
	}
	tag := u.eng.typeTag(ins.AssertedType)
	okT := Term{fmt.Sprintf("(= (i-tag %s) %d)", x.S, tag), sBool}
	ts := u.tc.sortOf(ins.AssertedType)
	var v Term
	pl := Term{"(i-val " + x.S + ")", sInt}
	switch ts.K {
	case KInt, KRef, KFunc, KMap:
		v = Term{pl.S, ts}
	case KBV:
		if ts.W == 64 {
			v = Term{"(i-bv " + x.S + ")", ts}
		} else {
			v = Term{fmt.Sprintf("((_ extract %d 0) (i-bv %s))", ts.W-1, x.S), ts}
		}
	case KBool:
		v = Term{"(= " + pl.S + " 1)", ts}
	default:
		v = u.load(f.cur, Term{pl.S, &Sort{K: KRef, Go: types.NewPointer(ins.AssertedType)}})
	}
	if ins.CommaOk {
		return Tuple{ite(okT, v, u.tc.zero(ts)), okT}
	}
	u.oblige(f.key, "safe.assert", "", f.curReach, okT, f.pos(ins)+" type assertion to "+ins.AssertedType.String(), "")
	return v
}

// ---------------------------------------------------------------- maps

func (f *frame) lookup(ins *ssa.Lookup) Val {
	u := f.u
	x := f.value(ins.X)
	if tbl, ok := x.(*MapTable); ok {
		k := f.term(ins.Index)
		has := mkBool(false)
		val := u.tc.zero(tbl.ValS)
		for i := len(tbl.Keys) - 1; i >= 0; i-- {
			c := eq(k, tbl.Keys[i])
			has = or(c, has)
			val = ite(c, tbl.Vals[i], val)
		}
		val = u.define(f.key+"_"+ins.Name()+"_v", val)
		if ins.CommaOk {
			return Tuple{val, u.define(f.key+"_"+ins.Name()+"_ok", has)}
		}
		return val
	}
	if t, ok := x.(Term); ok && t.T.K == KStr {
		idx := f.intTerm(f.term(ins.Index))
		f.boundsCheck(idx, Term{"(str-len " + t.S + ")", sInt}, ins)
		return sel(Term{"(str-arr " + t.S + ")", nil}, idx, bvSort(8, false))
	}
	// a map that is not a package-level table: reads are an uninterpreted function of (map, epoch, key); every map
	// update in the function starts a new epoch (nothing is known about the contents afterwards)
	mt := ins.X.Type().Underlying().(*types.Map)
	vs := u.tc.sortOf(mt.Elem())
	mterm, ok := x.(Term)
	if !ok {
		f.bad("lookup in an unsupported map value")
	}
	k := f.term(ins.Index)
	get, has := u.mapFuncs(mt)
	ep := u.ghost(f.cur, "mapEpoch", sInt)
	v := u.define(f.key+"_"+ins.Name()+"_mv", Term{fmt.Sprintf("(%s %s %s %s)", get, mterm.S, ep.S, k.S), vs})
	if ins.CommaOk {
		return Tuple{v, u.define(f.key+"_"+ins.Name()+"_mok", Term{fmt.Sprintf("(%s %s %s %s)", has, mterm.S, ep.S, k.S), sBool})}
	}
	return v
}

// mapFuncs declares (once per unit) the read functions of a map type.
func (u *Unit) mapFuncs(mt *types.Map) (string, string) {
	tn := sanitize(u.tc.typeName(mt.Key()) + "_" + u.tc.typeName(mt.Elem()))
	get, has := "mapget_"+tn, "maphas_"+tn
	if !u.decl[get] {
		u.decl[get] = true
		ks, vs := u.tc.smt(u.tc.sortOf(mt.Key())), u.tc.smt(u.tc.sortOf(mt.Elem()))
		u.items = append(u.items, fmt.Sprintf("(declare-fun %s (Int Int %s) %s)", get, ks, vs), fmt.Sprintf("(declare-fun %s (Int Int %s) Bool)", has, ks))
		// a key that is not present reads as the zero value
		u.items = append(u.items, fmt.Sprintf("(assert (forall ((m Int) (e Int) (k %s)) (! (=> (not (%s m e k)) (= (%s m e k) %s)) :pattern ((%s m e k)))))", ks, has, get, u.tc.zero(u.tc.sortOf(mt.Elem())).S, get))
	}
	return get, has
}

func (f *frame) mapUpdate(ins *ssa.MapUpdate) {
	u := f.u
	ep := u.ghost(f.cur, "mapEpoch", sInt)
	mt, isMap := ins.Map.Type().Underlying().(*types.Map)
	mterm, isTerm := f.value(ins.Map).(Term)
	if !isMap || !isTerm || os.Getenv("GOVC_NOMAPUPD") != "" {
		u.note("map update in %s: the contents of all maps are unknown afterwards (maps are read-only functions between updates)", f.key)
		u.setGhost(f.cur, "mapEpoch", Term{"(+ " + ep.S + " 1)", sInt})
		return
	}
	// m[k] = v starts a new epoch in which maps of this type read as before, except m at k. (Maps of other key /
	// value types have their own read functions; for them the new epoch is unconstrained, i.e. nothing is known.)
	k := f.term(ins.Key)
	v := f.term(ins.Value)
	get, has := u.mapFuncs(mt)
	ne := u.define("mapEpoch_upd", Term{"(+ " + ep.S + " 1)", sInt})
	ks := u.tc.smt(u.tc.sortOf(mt.Key()))
	u.assume(Term{fmt.Sprintf("(forall ((q_m Int) (q_k %[1]s)) (! (= (%[2]s q_m %[3]s q_k) (or (%[2]s q_m %[4]s q_k) (and (= q_m %[5]s) (= q_k %[6]s)))) :pattern ((%[2]s q_m %[3]s q_k))))",
		ks, has, ne.S, ep.S, mterm.S, k.S), sBool})
	u.assume(Term{fmt.Sprintf("(forall ((q_m Int) (q_k %[1]s)) (! (= (%[2]s q_m %[3]s q_k) (ite (and (= q_m %[5]s) (= q_k %[6]s)) %[7]s (%[2]s q_m %[4]s q_k))) :pattern ((%[2]s q_m %[3]s q_k))))",
		ks, get, ne.S, ep.S, mterm.S, k.S, v.S), sBool})
	u.setGhost(f.cur, "mapEpoch", ne)
	u.note("map update in %s: modelled exactly for maps of this key/value type (maps of other types: contents unknown afterwards)", f.key)
}

// typeTagByName resolves a Go type written in a contract (uint16, smf.MetricTicks, *bytes.Buffer) to its tag.
func (e *Engine) typeTagByName(name string, pkg *ssa.Package) int {
	ptr := strings.HasPrefix(name, "*")
	n := strings.TrimPrefix(name, "*")
	var t types.Type
	if n == "bytes" {
		t = types.NewSlice(types.Typ[types.Uint8]) // pseudo name for []byte
	}
	if obj := types.Universe.Lookup(n); obj != nil && t == nil {
		if tn, ok := obj.(*types.TypeName); ok {
			t = tn.Type()
		}
	}
	if t == nil {
		pn, tn := "", n
		if i := strings.Index(n, "."); i > 0 {
			pn, tn = n[:i], n[i+1:]
		}
		var p *ssa.Package
		if pn == "" {
			p = pkg
		} else {
			p = e.pkgByName[pn]
		}
		if p != nil {
			if obj := p.Pkg.Scope().Lookup(tn); obj != nil {
				if x, ok := obj.(*types.TypeName); ok {
					t = x.Type()
				}
			}
		}
	}
	if t == nil {
		panic(unsupported{"typeid: unknown type " + name})
	}
	if ptr {
		t = types.NewPointer(t)
	}
	return e.typeTag(t)
}

// dynInfo remembers the concrete value an interface value was made from in this unit (static devirtualisation).
type dynInfo struct {
	T types.Type
	V Val
}

// typeByReflectName resolves the String() of a reflect.Type ("*runningstatus.smfreader", "smf.TimeCode") to
// the named type of a loaded package.
func (e *Engine) typeByReflectName(name string) types.Type {
	ptr := strings.HasPrefix(name, "*")
	n := strings.TrimPrefix(name, "*")
	i := strings.LastIndex(n, ".")
	if i < 0 {
		return nil
	}
	p := e.pkgByName[n[:i]]
	if p == nil {
		return nil
	}
	obj := p.Pkg.Scope().Lookup(n[i+1:])
	if obj == nil {
		return nil
	}
	tn, ok := obj.(*types.TypeName)
	if !ok {
		return nil
	}
	if ptr {
		return types.NewPointer(tn.Type())
	}
	return tn.Type()
}
