package main

import (
	"encoding/json"
	"fmt"
	"os"
	"path/filepath"
	"sort"
	"strings"
)

type propResult struct {
	pc      *PropCfg
	tier    string
	lines   []string
	nObl    int
	nDis    int
	nViol   int
	nCover  int
	broken  bool
	WallS   float64
	solverN map[string]int
	solverS map[string]float64
	funcs   []string
	lemmas  []string
	samples []interface{}
	assumptions map[string]bool
	trusted map[string]bool
	inlined map[string]bool
	known   []string
	undis   []string
	outOfReach []string
	bounded []interface{}
	smtBytes int
	deadSites []string
}

type knownFinding struct {
	Property   string `json:"property"`
	Status     string `json:"status"` // known | fixed
	Obligation string `json:"obligation"`
	What       string `json:"what"`
	Commit     string `json:"commit,omitempty"`
}

func loadKnown(verif string) []knownFinding {
	var k struct {
		Findings []knownFinding `json:"findings"`
	}
	raw, err := os.ReadFile(filepath.Join(verif, "KNOWN_FINDINGS.json"))
	if err != nil {
		return nil
	}
	json.Unmarshal(raw, &k)
	return k.Findings
}

func runProperty(pc *PropCfg, repo, verif, tier string, update bool) *propResult {
	r := &propResult{pc: pc, tier: tier, solverN: map[string]int{}, solverS: map[string]float64{}, assumptions: map[string]bool{},
		trusted: map[string]bool{}, inlined: map[string]bool{}}
	e, err := setup(repo, verif, pc.Packages)
	if err != nil {
		// the tree does not load (does not compile): not a verdict about the property
		r.lines = append(r.lines, "ERROR: cannot load /repo: "+firstLines(err.Error(), 5))
		r.broken = true
		return r
	}
	e.trackAlloc = pc.TrackAlloc
	for _, n := range e.aliasNotes {
		r.assumptions[n] = true
	}
	dir, _ := os.MkdirTemp("", "govc.")
	defer os.RemoveAll(dir)
	cfg := &solveCfg{tier: tier, dir: dir, quickT: 10, slowT: 40, workers: 14}
	if tier == "thorough" {
		cfg.slowT = 60
	}
	replayDir := filepath.Join(verif, "replays", pc.ID)
	os.MkdirAll(replayDir, 0o755)

	var jobs []job
	type unitErr struct {
		name string
		err  error
	}
	var failedUnits []unitErr
	// the functions named by the property, closed under "calls a function by its (non-trusted) contract":
	// a check must verify every body whose contract it relies on, or a change in that body would go unseen
	work := append([]string{}, pc.Functions...)
	seenFn := map[string]bool{}
	verified := map[string]bool{}
	for len(work) > 0 {
		fk := work[0]
		work = work[1:]
		if seenFn[fk] {
			continue
		}
		seenFn[fk] = true
		u, err := e.verifyFunc(fk)
		if err != nil {
			failedUnits = append(failedUnits, unitErr{fk, err})
			if u == nil {
				continue
			}
		}
		r.funcs = append(r.funcs, fk)
		if err == nil {
			verified[fk] = true
		}
		for _, o := range u.obls {
			jobs = append(jobs, job{u, o})
		}
		for _, n := range u.notes {
			r.assumptions[n] = true
		}
		var more []string
		for k := range e.calledContracts {
			if !seenFn[k] {
				more = append(more, k)
			}
		}
		sort.Strings(more)
		work = append(work, more...)
	}
	for _, ln := range pc.Lemmas {
		u, err := e.verifyLemma(ln)
		if err != nil {
			failedUnits = append(failedUnits, unitErr{"lemma." + ln, err})
			continue
		}
		r.lemmas = append(r.lemmas, ln)
		for _, o := range u.obls {
			jobs = append(jobs, job{u, o})
		}
	}
	for _, j := range jobs {
		if j.o.Result != "trivial" {
			func() {
				defer func() {
					if rec := recover(); rec != nil {
						if us, ok := rec.(unsupported); ok {
							j.o.Result = "error"
							j.o.Comment = us.msg
							return
						}
						panic(rec)
					}
				}()
				j.o.scriptText = j.u.script(j.o, true)
				r.smtBytes += len(j.o.scriptText)
				if !j.o.Cover {
					// candidate search: opaque spec functions as plain definitions, other quantified facts dropped
					j.u.concrete = true
					j.o.candText = qfPart(j.u.script(j.o, true))
					j.u.concrete = false
				}
			}()
		}
	}
	dischargeAll(jobs, cfg)

	// baseline of obligation names that discharged on the unchanged tree
	expPath := filepath.Join(verif, "props", pc.ID+".expected")
	expected := map[string]bool{}
	if raw, err := os.ReadFile(expPath); err == nil {
		for _, l := range strings.Split(string(raw), "\n") {
			if l = strings.TrimSpace(l); l != "" {
				expected[l] = true
			}
		}
	}
	deadBaseline := map[string]bool{}
	deadPath := filepath.Join(verif, "props", pc.ID+".dead")
	if raw, err := os.ReadFile(deadPath); err == nil {
		for _, l := range strings.Split(string(raw), "\n") {
			if l = strings.TrimSpace(l); l != "" {
				deadBaseline[l] = true
			}
		}
	}
	known := loadKnown(verif)
	isKnown := func(name string) *knownFinding {
		for i := range known {
			if known[i].Property == pc.ID && known[i].Status == "known" && known[i].Obligation == name {
				return &known[i]
			}
		}
		return nil
	}
	seen := map[string]bool{}
	var names []string
	for _, j := range jobs {
		o := j.o
		seen[o.Name] = true
		if o.Cover {
			r.nCover++
			if o.Result == "unsat" {
				fine := strings.Contains(o.Name, ".return") && !strings.HasSuffix(o.Name, ".return") || strings.Contains(o.Name, ".after-call")
				if fine {
					// a single site is unreachable under the contracts: dead code, or (if it is new) a callee
					// contract that contradicts the path
					site := coverSite(o)
					r.deadSites = append(r.deadSites, site)
					if deadBaseline[site] || !strings.Contains(o.Name, ".after-call") {
						continue
					}
				}
				// vacuous: preconditions contradictory, no return reachable, or a callee contract contradicts its call site
				r.nViol++
				p := writeReplayNote(replayDir, o, "vacuity guard failed: "+o.Src)
				r.lines = append(r.lines, fmt.Sprintf("VIOLATION property=%s replay=%s obligation=%s (vacuous contract) no-failing-input-found", pc.ID, p, o.Name))
			}
			continue
		}
		r.nObl++
		names = append(names, o.Name)
		sv := o.Solver
		if sv == "" {
			sv = "none"
		}
		ok := o.Result == "unsat" || o.Result == "trivial"
		if ok {
			r.nDis++
			r.solverN[sv]++
			r.solverS[sv] += o.Secs
			if len(r.samples) < 12 && o.Result == "unsat" {
				r.samples = append(r.samples, map[string]interface{}{"obligation": o.Name, "clause": o.Src, "solver": o.Solver, "secs": round3(o.Secs), "smt_bytes": len(o.scriptText)})
			}
			continue
		}
		if kf := isKnown(o.Name); kf != nil {
			r.lines = append(r.lines, fmt.Sprintf("KNOWN-FINDING: property=%s %s %s", pc.ID, o.Name, kf.What))
			r.known = append(r.known, o.Name)
			r.nObl-- // not counted as an obligation of the proof
			continue
		}
		r.nViol++
		r.undis = append(r.undis, o.Name+" ["+o.Result+"]")
		confirmed, p := replayObligation(e, j.u, o, repo, replayDir)
		suffix := ""
		if !confirmed {
			suffix = " no-failing-input-found"
		}
		r.lines = append(r.lines, fmt.Sprintf("VIOLATION property=%s replay=%s obligation=%s result=%s%s", pc.ID, p, o.Name, o.Result, suffix))
	}
	for _, fu := range failedUnits {
		// a function the contracts refer to can no longer be verified: undischarged regression
		r.nViol++
		r.nObl++
		o := &Obligation{Name: fu.name + "#reach", Result: "error", Comment: fu.err.Error(), Src: "function can be brought under contract"}
		p := writeReplayNote(replayDir, o, fu.err.Error())
		r.outOfReach = append(r.outOfReach, fu.name+": "+fu.err.Error())
		r.lines = append(r.lines, fmt.Sprintf("VIOLATION property=%s replay=%s obligation=%s (%s) no-failing-input-found", pc.ID, p, o.Name, firstLines(fu.err.Error(), 1)))
	}
	// obligations that existed in the baseline and are gone
	var missing []string
	for n := range expected {
		// only contract clauses are tracked (post / inv / dec / lemma): the ordinals of safety and call-site
		// obligations shift with harmless edits
		if !seen[n] && (strings.Contains(n, "#post.") || strings.Contains(n, "#inv.") || strings.Contains(n, "#dec.") || strings.HasPrefix(n, "lemma.")) {
			// a function that is no longer reached through a contract call (its caller now does the work
			// itself, or calls something else) takes its obligations with it: that is not a regression. The
			// functions the property names are always verified, and reported above if they cannot be.
			if i := strings.Index(n, "#"); i > 0 && !strings.HasPrefix(n, "lemma.") && !verified[n[:i]] {
				continue
			}
			missing = append(missing, n)
		}
	}
	sort.Strings(missing)
	if !update {
		for _, n := range missing {
			r.nViol++
			r.nObl++
			o := &Obligation{Name: n, Result: "missing", Src: "obligation of the baseline is no longer generated (contract-target-missing or code path removed)"}
			p := writeReplayNote(replayDir, o, o.Src)
			r.lines = append(r.lines, fmt.Sprintf("VIOLATION property=%s replay=%s obligation=%s (obligation vanished) no-failing-input-found", pc.ID, p, n))
		}
	}
	if update {
		sort.Strings(names)
		var keep []string
		for _, j := range jobs {
			if !j.o.Cover && (j.o.Result == "unsat" || j.o.Result == "trivial") {
				keep = append(keep, j.o.Name)
			}
		}
		sort.Strings(keep)
		os.WriteFile(expPath, []byte(strings.Join(keep, "\n")+"\n"), 0o644)
		sort.Strings(r.deadSites)
		os.WriteFile(deadPath, []byte(strings.Join(r.deadSites, "\n")+"\n"), 0o644)
	}
	if os.Getenv("GOVC_TIMING") != "" {
		type ts struct {
			n string
			s float64
			r string
		}
		var all []ts
		for _, j := range jobs {
			all = append(all, ts{j.o.Name, j.o.Secs, j.o.Result + "/" + j.o.Solver})
		}
		sort.Slice(all, func(i, k int) bool { return all[i].s > all[k].s })
		for i := 0; i < len(all) && i < 25; i++ {
			fmt.Fprintf(os.Stderr, "TIMING %6.1fs %-22s %s\n", all[i].s, all[i].r, all[i].n)
		}
	}
	for k := range e.trustedUsed {
		r.trusted[k] = true
	}
	for k := range e.inlinedUsed {
		r.inlined[k] = true
	}
	return r
}

func round3(f float64) float64 { return float64(int(f*1000+0.5)) / 1000 }

func (r *propResult) ev() *evidence {
	tb := []string{"govc (this VC generator) and go/ssa of x/tools v0.29.0", "SMT solvers z3 4.8.12, z3-new 5.1.0, cvc5 1.0.3"}
	for _, k := range sortedSet(r.trusted) {
		tb = append(tb, "trusted contract (assumed, body not verified): "+k)
	}
	var inl []string
	for _, k := range sortedSet(r.inlined) {
		inl = append(inl, k)
	}
	as := []string{
		"M2: int/uint are mathematical integers (machine arithmetic on int treated as mathematical); 0 <= len <= cap for every slice",
		"allocation always succeeds",
		"single goroutine",
	}
	as = append(as, sortedSet(r.assumptions)...)
	as = append(as, r.pc.Notes...)
	solver := map[string]interface{}{}
	for k, n := range r.solverN {
		solver[k] = map[string]interface{}{"discharged": n, "secs": round3(r.solverS[k])}
	}
	cov := map[string]interface{}{
		"obligations":              r.nObl,
		"discharged":               r.nDis,
		"checker_cmd":              fmt.Sprintf("/verif/bin/govc check -prop %s -tier %s", r.pc.ID, r.tier),
		"trusted_base":             tb,
		"functions_under_contract": r.funcs,
		"lemmas":                   r.lemmas,
		"inlined_real_bodies":      inl,
		"by_solver":                solver,
		"cover_checks":             r.nCover,
		"samples":                  r.samples,
		"undischarged":             r.undis,
		"known_findings":           r.known,
		"out_of_reach":             r.outOfReach,
		"smt_bytes_total":          r.smtBytes,
		"bounded":                  r.pc.Bounded,
		"unreachable_sites":        r.deadSites,
	}
	if r.samples == nil {
		cov["samples"] = []interface{}{}
	}
	return &evidence{PropertyID: r.pc.ID, Tier: r.tier, Seed: 0, Level: "proof", Coverage: cov, Assumptions: as, WallS: round3(r.WallS), Violations: r.nViol}
}

func writeReplayNote(dir string, o *Obligation, why string) string {
	p := filepath.Join(dir, sanitize(o.Name)+".txt")
	var sb strings.Builder
	sb.WriteString("obligation: " + o.Name + "\n")
	sb.WriteString("clause: " + o.Src + "\n")
	sb.WriteString("result: " + o.Result + " (" + o.Solver + ")\n")
	sb.WriteString("reason: " + why + "\n")
	if o.Comment != "" {
		sb.WriteString("comment: " + o.Comment + "\n")
	}
	if o.Model != "" {
		sb.WriteString("solver output:\n" + o.Model + "\n")
	}
	os.WriteFile(p, []byte(sb.String()), 0o644)
	return p
}

// coverSite names an unreachable site independently of ordinals: function, kind, callee and source text.
func coverSite(o *Obligation) string {
	kind := "return"
	callee := ""
	if i := strings.Index(o.Name, ".after-call"); i >= 0 {
		kind = "after-call"
		rest := o.Name[i+len(".after-call"):]
		if j := strings.Index(rest, "."); j >= 0 {
			callee = rest[j+1:]
		}
	}
	return o.Fn + " " + kind + " " + callee
}
