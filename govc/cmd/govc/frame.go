package main

import (
	"fmt"
	"go/types"
	"os"
	"strings"
)

// Frame conditions. The modifies clause of the function under verification is enforced at every write
// (Dafny style): each store, each builtin that writes (copy), and each location a called contract declares
// as modified must be a location of the function's own modifies clause (evaluated in the pre-state) or belong
// to an object allocated since entry. Callers then assume exactly the declared frame.

type frameEntry struct {
	heap   string
	base   Term  // object reference (struct, box, ghost-field owner) or backing-array reference
	lo, hi *Term // absolute element index range for E.* heaps (nil = whole array)
}

// frameInit evaluates the modifies clause of ct in the pre-state.
func (u *Unit) frameInit(ct *Contract, env *SpecEnv, key string) {
	if os.Getenv("GOVC_NOFRAME") != "" || ct == nil || ct.Trusted {
		return
	}
	u.frameOn = true
	u.frameKey = key
	u.frameSeen = map[string]bool{}
	u.frameGhost = map[string]bool{}
	for _, m := range ct.Modifies {
		x := m.X
		switch x.Op {
		case "ident":
			u.frameGhost[x.Tok] = true
			if d, ok := env.vars[x.Tok].(*derefOnUse); ok {
				if pt, ok := d.ptr.(Term); ok && pt.T.K == KRef {
					hn, _, _ := u.boxHeapName(u.pointee(pt))
					u.frameAllowed = append(u.frameAllowed, frameEntry{heap: hn, base: pt})
				}
			}
		case "field":
			if hn, ok := u.anyField(x, env); ok {
				// any(T).f: the field f of every object of type T
				u.frameAllowed = append(u.frameAllowed, frameEntry{heap: hn, base: Term{"*", nil}})
				continue
			}
			b := env.eval(x.Args[0])
			if _, ok := u.eng.ghostFields[x.Tok]; ok {
				if _, isField := env.structField(b, x.Tok); !isField {
					id := b
					if b.T.K == KIface {
						id = Term{"(i-val " + b.S + ")", sInt}
					}
					u.frameAllowed = append(u.frameAllowed, frameEntry{heap: "GF." + x.Tok, base: id})
					continue
				}
			}
			if b.T.K != KRef {
				continue
			}
			idx, ok := env.structField(b, x.Tok)
			if !ok {
				continue
			}
			hn, _, _ := u.fieldHeapName(u.pointee(b), idx)
			u.frameAllowed = append(u.frameAllowed, frameEntry{heap: hn, base: b})
		case "un":
			p := env.eval(x.Args[0])
			if p.T.K != KRef {
				continue
			}
			el := u.pointee(p)
			if st, ok := el.Underlying().(*types.Struct); ok {
				for i := 0; i < st.NumFields(); i++ {
					hn, _, _ := u.fieldHeapName(el, i)
					u.frameAllowed = append(u.frameAllowed, frameEntry{heap: hn, base: p})
				}
				continue
			}
			if at, ok := el.Underlying().(*types.Array); ok {
				hn, _, _ := u.elemHeapName(at.Elem())
				u.frameAllowed = append(u.frameAllowed, frameEntry{heap: hn, base: p})
				continue
			}
			hn, _, _ := u.boxHeapName(el)
			u.frameAllowed = append(u.frameAllowed, frameEntry{heap: hn, base: p})
		case "slice", "index":
			b := env.eval(x.Args[0])
			if b.T.K != KSlice {
				continue
			}
			lo := Term{"0", sInt}
			hi := sliceLen(b)
			if x.Op == "index" {
				lo = env.evalInt(x.Args[1])
				hi = add(lo, Term{"1", sInt})
			} else {
				if x.Args[1] != nil {
					lo = env.evalInt(x.Args[1])
				}
				if x.Args[2] != nil {
					hi = env.evalInt(x.Args[2])
				}
			}
			el := b.T.Go.Underlying().(*types.Slice).Elem()
			hn, _, _ := u.elemHeapName(el)
			alo := add(sliceOff(b), lo)
			ahi := add(sliceOff(b), hi)
			u.frameAllowed = append(u.frameAllowed, frameEntry{heap: hn, base: sliceRef(b), lo: &alo, hi: &ahi})
		}
	}
}

// frameWrite: the object ref of heap hn (element range [lo,hi) of it, absolute indices, for E.* heaps) is written now.
func (u *Unit) frameWrite(hn string, ref Term, lo, hi *Term, what string) {
	if !u.frameOn || u.frameOff > 0 || u.nonNil[ref.S] {
		return
	}
	if strings.HasPrefix(ref.S, "G.nextRef") {
		return // a frontier value: allocated in this function
	}
	if u.eng.newFieldHeaps[hn] {
		u.note("write to " + hn + ", a field added after the contracts were written: exempt from the frame check, havocked by every contract call")
		return
	}
	// (a nil reference is never written: that is the business of the safe.nil / safe.bounds obligations)
	parts := []Term{{"(>= " + ref.S + " " + sanitize("G.nextRef") + "!init)", sBool}, {"(= " + ref.S + " 0)", sBool}}
	for _, e := range u.frameAllowed {
		if e.heap != hn {
			continue
		}
		if e.base.S == "*" {
			return
		}
		c := eq(ref, Term{e.base.S, ref.T})
		if e.lo != nil && lo != nil {
			c = and(c, le(*e.lo, *lo), le(*hi, *e.hi))
		} else if e.lo != nil && lo == nil {
			continue // the whole array is written, only a part is allowed
		}
		parts = append(parts, c)
	}
	goal := or(parts...)
	k := u.curReach.S + "|" + goal.S
	if u.frameSeen[k] {
		return
	}
	u.frameSeen[k] = true
	u.oblige(u.frameKey, "frame", "", u.curReach, goal, fmt.Sprintf("write to %s (%s) is covered by the modifies clause", hn, what), "")
}

// frameGhostWrite: a ghost scalar (or the callback log) is written.
func (u *Unit) frameGhostWrite(name string) {
	if !u.frameOn || u.frameOff > 0 || name == "nextRef" || name == "allocated" {
		return
	}
	if u.frameGhost[name] {
		return
	}
	if strings.HasPrefix(name, "cb_") && u.frameGhost["cb_log"] {
		return
	}
	k := "ghost|" + name + "|" + u.curReach.S
	if u.frameSeen[k] {
		return
	}
	u.frameSeen[k] = true
	u.oblige(u.frameKey, "frame", "", u.curReach, mkBool(false), "write to ghost / package variable "+name+" is covered by the modifies clause", "")
}

// anyField recognises the location  any(T).f  and returns the name of the heap of field f of struct type T.
func (u *Unit) anyField(x *SX, env *SpecEnv) (string, bool) {
	if x.Op != "field" || len(x.Args) != 1 || x.Args[0].Op != "call" || len(x.Args[0].Args) != 2 || x.Args[0].Args[0].Op != "ident" || x.Args[0].Args[0].Tok != "any" {
		return "", false
	}
	tx := x.Args[0].Args[1]
	pkg := env.pkg
	tn := tx.Tok
	if tx.Op == "field" {
		pkg = u.eng.pkgByName[tx.Args[0].Tok]
	}
	if pkg == nil {
		env.bad("any(%s): unknown package", tx)
	}
	obj := pkg.Pkg.Scope().Lookup(tn)
	if obj == nil {
		env.bad("any(%s): unknown type", tx)
	}
	st, ok := obj.Type().Underlying().(*types.Struct)
	if !ok {
		env.bad("any(%s): not a struct type", tx)
	}
	for i := 0; i < st.NumFields(); i++ {
		if st.Field(i).Name() == x.Tok {
			hn, hs, _ := u.fieldHeapName(obj.Type(), i)
			u.eng.heapSorts[hn] = hs
			return hn, true
		}
	}
	env.bad("any(%s): no field %s", tx, x.Tok)
	return "", false
}

// frameAnyWrite: a callee may write field heap hn of any object.
func (u *Unit) frameAnyWrite(hn string) {
	if !u.frameOn || u.frameOff > 0 {
		return
	}
	for _, e := range u.frameAllowed {
		if e.heap == hn && e.base.S == "*" {
			return
		}
	}
	k := "any|" + hn + "|" + u.curReach.S
	if u.frameSeen[k] {
		return
	}
	u.frameSeen[k] = true
	u.oblige(u.frameKey, "frame", "", u.curReach, mkBool(false), "write to "+hn+" of arbitrary objects (callee modifies any(...)) is covered by the modifies clause", "")
}
