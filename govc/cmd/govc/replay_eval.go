package main

import (
	"encoding/base64"
	"fmt"
	"go/types"
	"math/big"
	"os"
	"path/filepath"
	"sort"
	"strings"

	"golang.org/x/tools/go/ssa"
)

// concrete states for evaluating a clause on observed values

type concState struct {
	u     *Unit
	flat  map[string]map[int64]string           // heap -> ref -> value term
	elem  map[string]map[int64]map[int64]string // elem heap -> ref -> index -> value
	sorts map[string]string
	inner map[string]string // elem heap -> inner array sort
	zero  map[string]string
	next  int64
}

func newConcState(u *Unit, first int64) *concState {
	return &concState{u: u, flat: map[string]map[int64]string{}, elem: map[string]map[int64]map[int64]string{},
		sorts: map[string]string{}, inner: map[string]string{}, zero: map[string]string{}, next: first}
}

func (cs *concState) term(js interface{}, t types.Type) (Term, error) {
	u := cs.u
	s := u.tc.sortOf(t)
	switch s.K {
	case KBool:
		b, _ := js.(bool)
		return Term{fmt.Sprint(b), s}, nil
	case KInt, KBV:
		str, ok := js.(string)
		if !ok {
			return Term{}, fmt.Errorf("number expected for %s", t)
		}
		bi, ok := new(big.Int).SetString(str, 10)
		if !ok {
			return Term{}, fmt.Errorf("bad number %q", str)
		}
		if s.K == KInt {
			r := intConst(bi)
			r.T = s
			return r, nil
		}
		return bvConst(bi, s), nil
	case KStr:
		m, _ := js.(map[string]interface{})
		b64, _ := m["str"].(string)
		raw, _ := base64.StdEncoding.DecodeString(b64)
		return u.strConst(string(raw)), nil
	case KFunc, KMap:
		m, _ := js.(map[string]interface{})
		if n, _ := m["nil"].(bool); n {
			return Term{"0", s}, nil
		}
		return Term{"1", s}, nil
	case KErr:
		m, _ := js.(map[string]interface{})
		if n, _ := m["nil"].(bool); n || m == nil {
			return Term{"0", s}, nil
		}
		if es, _ := m["errstr"].(string); es == "EOF" {
			return u.eng.errConst("io.EOF"), nil
		} else if id, ok := u.eng.errTexts()[es]; ok {
			return Term{fmt.Sprint(id), s}, nil
		}
		return Term{"5000", s}, nil
	case KSlice:
		m, _ := js.(map[string]interface{})
		if n, _ := m["nil"].(bool); n || m == nil {
			return u.tc.zero(s), nil
		}
		el := t.Underlying().(*types.Slice).Elem()
		ref := cs.next
		cs.next++
		hn, hs, es := u.elemHeapName(el)
		cs.sorts[hn] = hs
		cs.inner[hn] = "(Array Int " + u.tc.smt(es) + ")"
		cs.zero[hn] = u.tc.zero(es).S
		if cs.elem[hn] == nil {
			cs.elem[hn] = map[int64]map[int64]string{}
		}
		cs.elem[hn][ref] = map[int64]string{}
		elems, _ := m["elems"].([]interface{})
		for i, ej := range elems {
			et, err := cs.term(ej, el)
			if err != nil {
				return Term{}, err
			}
			cs.elem[hn][ref][int64(i)] = et.S
		}
		ln := int64(len(elems))
		if f, ok := m["len"].(float64); ok {
			ln = int64(f)
		}
		cp := ln
		if f, ok := m["cap"].(float64); ok {
			cp = int64(f)
		}
		return Term{fmt.Sprintf("(mk-slice %d 0 %d %d)", ref, ln, cp), s}, nil
	case KRef:
		m, _ := js.(map[string]interface{})
		if n, _ := m["nil"].(bool); n || m == nil {
			return Term{"0", s}, nil
		}
		pt, ok := t.Underlying().(*types.Pointer)
		if !ok {
			return Term{}, fmt.Errorf("unsupported pointer-like type %s", t)
		}
		ref := cs.next
		cs.next++
		el := pt.Elem()
		if stt, ok := el.Underlying().(*types.Struct); ok {
			vm, _ := m["val"].(map[string]interface{})
			fs, _ := vm["fields"].([]interface{})
			for i := 0; i < stt.NumFields() && i < len(fs); i++ {
				hn, hs, fsort := u.fieldHeapName(el, i)
				ft, err := cs.term(fs[i], stt.Field(i).Type())
				if err != nil {
					// unsupported field: leave unconstrained zero
					ft = u.tc.zero(fsort)
				}
				cs.sorts[hn] = hs
				cs.zero[hn] = u.tc.zero(fsort).S
				if cs.flat[hn] == nil {
					cs.flat[hn] = map[int64]string{}
				}
				cs.flat[hn][ref] = ft.S
			}
			return Term{fmt.Sprint(ref), s}, nil
		}
		hn, hs, bs := u.boxHeapName(el)
		vt, err := cs.term(m["val"], el)
		if err != nil {
			return Term{}, err
		}
		cs.sorts[hn] = hs
		cs.zero[hn] = u.tc.zero(bs).S
		if cs.flat[hn] == nil {
			cs.flat[hn] = map[int64]string{}
		}
		cs.flat[hn][ref] = vt.S
		return Term{fmt.Sprint(ref), s}, nil
	case KStruct:
		m, _ := js.(map[string]interface{})
		fs, _ := m["fields"].([]interface{})
		stt := t.Underlying().(*types.Struct)
		sn := u.tc.structName(t)
		var parts []string
		for i := 0; i < stt.NumFields(); i++ {
			var ft Term
			var err error
			if i < len(fs) {
				ft, err = cs.term(fs[i], stt.Field(i).Type())
			}
			if err != nil || i >= len(fs) {
				ft = u.tc.zero(u.tc.sortOf(stt.Field(i).Type()))
			}
			parts = append(parts, ft.S)
		}
		if len(parts) == 0 {
			parts = []string{"false"}
		}
		return Term{"(mk-" + sn + " " + strings.Join(parts, " ") + ")", s}, nil
	case KIface:
		m, _ := js.(map[string]interface{})
		if n, _ := m["nil"].(bool); n || m == nil {
			return Term{"(mk-iface 0 0 (_ bv0 64))", s}, nil
		}
		dyn, hasDyn := m["dyn"].(string)
		if hasDyn && !strings.HasSuffix(dyn, ".govcReader") {
			// a value of a named type of the repository (or a pointer to one) inside an interface
			dt := cs.u.eng.typeByReflectName(dyn)
			if dt == nil {
				return Term{}, fmt.Errorf("interface value of dynamic type %s not supported in concrete evaluation", dyn)
			}
			tag := cs.u.eng.typeTag(dt)
			ds := u.tc.sortOf(dt)
			switch ds.K {
			case KRef:
				pt, err := cs.term(m["val"], dt)
				if err != nil {
					return Term{}, err
				}
				return Term{fmt.Sprintf("(mk-iface %d %s (_ bv0 64))", tag, pt.S), s}, nil
			case KBV:
				vt, err := cs.term(m["val"], dt)
				if err != nil {
					return Term{}, err
				}
				return Term{fmt.Sprintf("(mk-iface %d 0 %s)", tag, u.bvResize(vt, bvSort(64, vt.T.Signed)).S), s}, nil
			case KInt:
				vt, err := cs.term(m["val"], dt)
				if err != nil {
					return Term{}, err
				}
				return Term{fmt.Sprintf("(mk-iface %d %s (_ bv0 64))", tag, vt.S), s}, nil
			case KStruct:
				// boxed: the payload is a reference to a copy of the value
				pt, err := cs.term(map[string]interface{}{"nil": false, "val": m["val"]}, types.NewPointer(dt))
				if err != nil {
					return Term{}, err
				}
				return Term{fmt.Sprintf("(mk-iface %d %s (_ bv0 64))", tag, pt.S), s}, nil
			}
			return Term{}, fmt.Errorf("interface value of dynamic type %s not supported in concrete evaluation", dyn)
		}
		ref := cs.next
		cs.next++
		pv := m
		if hasDyn {
			pv, _ = m["val"].(map[string]interface{})
		}
		sv, _ := pv["val"].(map[string]interface{})
		fs, _ := sv["fields"].([]interface{})
		// fields: data, pos, sched, faulted, calls
		if len(fs) < 4 {
			return Term{}, fmt.Errorf("unexpected reader encoding")
		}
		dm, _ := fs[0].(map[string]interface{})
		elems, _ := dm["elems"].([]interface{})
		arr := "((as const (Array Int (_ BitVec 8))) #x00)"
		for i, ej := range elems {
			bi, _ := new(big.Int).SetString(ej.(string), 10)
			arr = fmt.Sprintf("(store %s %d %s)", arr, i, bvConst(bi, bvSort(8, false)).S)
		}
		pos, _ := fs[1].(string)
		faulted, _ := fs[3].(bool)
		set := func(name, srt, zero, val string) {
			hn := "GF." + name
			cs.sorts[hn] = "(Array Int " + srt + ")"
			cs.zero[hn] = zero
			if cs.flat[hn] == nil {
				cs.flat[hn] = map[int64]string{}
			}
			cs.flat[hn][ref] = val
		}
		set("sdata", "(Array Int (_ BitVec 8))", "((as const (Array Int (_ BitVec 8))) #x00)", arr)
		set("sn", "Int", "0", fmt.Sprint(len(elems)))
		set("spos", "Int", "0", pos)
		if faulted {
			set("sfault", "Int", "0", "5000")
		} else {
			set("sfault", "Int", "0", "0")
		}
		return Term{fmt.Sprintf("(mk-iface 1 %d (_ bv0 64))", ref), s}, nil
	case KArray:
		m, _ := js.(map[string]interface{})
		es, _ := m["array"].([]interface{})
		at := t.Underlying().(*types.Array)
		acc := u.tc.zero(s).S
		for i, ej := range es {
			et, err := cs.term(ej, at.Elem())
			if err != nil {
				return Term{}, err
			}
			acc = fmt.Sprintf("(store %s %d %s)", acc, i, et.S)
		}
		return Term{acc, s}, nil
	}
	return Term{}, fmt.Errorf("unsupported type %s in concrete evaluation", t)
}

func (cs *concState) state(nextRef int64) *State {
	st := &State{heaps: map[string]Term{}}
	for hn, m := range cs.flat {
		inner := strings.TrimSuffix(strings.TrimPrefix(cs.sorts[hn], "(Array Int "), ")")
		_ = inner
		acc := fmt.Sprintf("((as const %s) %s)", cs.sorts[hn], cs.zero[hn])
		var refs []int64
		for r := range m {
			refs = append(refs, r)
		}
		sort.Slice(refs, func(i, j int) bool { return refs[i] < refs[j] })
		for _, r := range refs {
			acc = fmt.Sprintf("(store %s %d %s)", acc, r, m[r])
		}
		st.heaps[hn] = Term{acc, nil}
		cs.u.eng.heapSorts[hn] = cs.sorts[hn]
	}
	for hn, m := range cs.elem {
		zin := fmt.Sprintf("((as const %s) %s)", cs.inner[hn], cs.zero[hn])
		acc := fmt.Sprintf("((as const %s) %s)", cs.sorts[hn], zin)
		var refs []int64
		for r := range m {
			refs = append(refs, r)
		}
		sort.Slice(refs, func(i, j int) bool { return refs[i] < refs[j] })
		for _, r := range refs {
			in := zin
			var idx []int64
			for i := range m[r] {
				idx = append(idx, i)
			}
			sort.Slice(idx, func(i, j int) bool { return idx[i] < idx[j] })
			for _, i := range idx {
				in = fmt.Sprintf("(store %s %d %s)", in, i, m[r][i])
			}
			acc = fmt.Sprintf("(store %s %d %s)", acc, r, in)
		}
		st.heaps[hn] = Term{acc, nil}
		cs.u.eng.heapSorts[hn] = cs.sorts[hn]
	}
	st.heaps["G.nextRef"] = Term{fmt.Sprint(nextRef), nil}
	return st
}

// evalClauseConcrete evaluates the failed postcondition on the values observed on the real code.
// Returns true when the clause is false there.
func evalClauseConcrete(e *Engine, u *Unit, o *Obligation, fn *ssa.Function, params []*cval, oc *replayOutcome) (violated bool, detail string) {
	ct := e.contracts[u.name]
	if ct == nil {
		return false, "no contract"
	}
	var clause *Clause
	for i, c := range ct.Ensures {
		if u.name+"#post."+clauseName(c, i) == o.Name {
			clause = c
		}
	}
	if clause == nil {
		return false, "clause not found for " + o.Name
	}
	// the harness must have established the precondition, otherwise the run says nothing
	for _, rq := range ct.Requires {
		if bad, _ := evalOneConcrete(e, fn, oc, rq, true); bad {
			return false, "the harness did not establish the precondition (" + rq.Src + "): the run says nothing about the contract"
		}
	}
	return evalOneConcrete(e, fn, oc, clause, false)
}

// preconditionBroken: some requires clause is definitely false on the observed pre-state.
func preconditionBroken(e *Engine, u *Unit, fn *ssa.Function, oc *replayOutcome) string {
	ct := e.contracts[u.name]
	if ct == nil {
		return ""
	}
	for _, rq := range ct.Requires {
		if bad, _ := evalOneConcrete(e, fn, oc, rq, true); bad {
			return rq.Src
		}
	}
	return ""
}

// evalOneConcrete evaluates one clause on observed values (inPre: over the pre-state only).
func evalOneConcrete(e *Engine, fn *ssa.Function, oc *replayOutcome, clause *Clause, inPre bool) (violated bool, detail string) {
	defer func() {
		if r := recover(); r != nil {
			violated = false
			detail = fmt.Sprintf("clause could not be evaluated on concrete values: %v", r)
		}
	}()
	cu := e.newUnit("replay-eval")
	cu.concrete = true
	pre := newConcState(cu, 1)
	post := newConcState(cu, 1)
	vars := map[string]Val{}
	if len(oc.Pre) != len(fn.Params) || (!inPre && len(oc.Post) != len(fn.Params)) {
		return false, "observed parameter list has the wrong length"
	}
	for i, p := range fn.Params {
		t, err := pre.term(oc.Pre[i], p.Type())
		if err != nil {
			return false, err.Error()
		}
		if !inPre {
			if _, err := post.term(oc.Post[i], p.Type()); err != nil {
				return false, err.Error()
			}
		}
		vars[p.Name()] = t
	}
	post.next = 1000
	rt := fn.Signature.Results()
	for i := 0; !inPre && i < rt.Len() && i < len(oc.Results); i++ {
		t, err := post.term(oc.Results[i], rt.At(i).Type())
		if err != nil {
			return false, err.Error()
		}
		if n := rt.At(i).Name(); n != "" && n != "_" {
			vars[n] = t
		}
		vars[fmt.Sprintf("result%d", i)] = t
		if rt.Len() == 1 {
			vars["result"] = t
		}
	}
	preSt := pre.state(1000)
	postSt := preSt
	if !inPre {
		postSt = post.state(2000)
	}
	// the ghost allocation counter is observed as the bytes the Go runtime allocated during the call
	preSt.heaps["G.allocated"] = Term{"0", sInt}
	if !inPre {
		a := "0"
		if _, ok := new(big.Int).SetString(oc.Alloc, 10); ok {
			a = oc.Alloc
		}
		postSt.heaps["G.allocated"] = Term{a, sInt}
	}
	env := &SpecEnv{u: cu, vars: vars, st: postSt, old: preSt, pkg: fn.Pkg, bound: map[string]Term{}, ctx: "concrete evaluation"}
	t := env.evalBool(clause.X)
	ob := &Obligation{Name: "concrete", Goal: t, NItems: len(cu.items), Blk: -2}
	script := cu.script(ob, false)
	tmpd, _ := os.MkdirTemp("", "govc-eval.")
	defer os.RemoveAll(tmpd)
	f := filepath.Join(tmpd, "e.smt2")
	os.WriteFile(f, []byte(script), 0o644)
	res := runSolver("z3-new", f, 20)
	switch res.status {
	case "sat":
		return true, "ground evaluation by z3-new: clause is false"
	case "unsat":
		return false, "clause holds on the values observed on the real code: the model is not a counterexample of the real code (ENGINE-MISMATCH or a contract weaker than the code)"
	}
	return false, "ground evaluation inconclusive: " + res.status
}
