package main

import (
	"encoding/json"
	"flag"
	"fmt"
	"os"
	"path/filepath"
	"sort"
	"strings"
	"time"
)

type PropCfg struct {
	ID        string   `json:"id"`
	Packages  []string `json:"packages"`
	Functions []string `json:"functions"`
	Lemmas    []string `json:"lemmas"`
	Notes     []string `json:"notes"`
	Bounded   []string `json:"bounded"`
	TrackAlloc bool    `json:"track_alloc"`
}

func main() {
	if len(os.Args) < 2 {
		fmt.Fprintln(os.Stderr, "usage: govc check|dump|list ...")
		os.Exit(2)
	}
	switch os.Args[1] {
	case "check":
		os.Exit(cmdCheck(os.Args[2:]))
	case "dump":
		os.Exit(cmdDump(os.Args[2:]))
	case "replay":
		os.Exit(cmdReplay(os.Args[2:]))
	case "sweep":
		os.Exit(cmdSweep(os.Args[2:]))
	case "locals":
		os.Exit(cmdLocals(os.Args[2:]))
	default:
		fmt.Fprintln(os.Stderr, "unknown command", os.Args[1])
		os.Exit(2)
	}
}

func setup(repo, verif string, pkgs []string) (*Engine, error) {
	if len(pkgs) == 0 {
		pkgs = []string{"./...."}
	}
	e, err := loadEngine(repo, pkgs)
	if err != nil {
		return nil, err
	}
	e.inlineStd["binary.(bigEndian).PutUint16"] = true
	e.inlineStd["binary.(bigEndian).PutUint32"] = true
	e.inlineStd["binary.(bigEndian).Uint16"] = true
	e.inlineStd["binary.(bigEndian).Uint32"] = true
	if err := e.loadAllSpecs(filepath.Join(verif, "spec")); err != nil {
		return nil, err
	}
	if os.Getenv("GOVC_NOALIAS") == "" {
		e.applyAliases(verif)
		e.loadFieldsBaseline(verif)
	}
	return e, nil
}

func cmdDump(args []string) int {
	fs := flag.NewFlagSet("dump", flag.ExitOnError)
	repo := fs.String("repo", "/repo", "")
	verif := fs.String("verif", "/verif", "")
	fn := fs.String("func", "", "function key")
	lemma := fs.String("lemma", "", "lemma name")
	obl := fs.String("obl", "", "print the SMT script of this obligation")
	pk := fs.String("pkgs", "", "comma separated package patterns")
	run := fs.Bool("run", false, "run the solvers")
	fs.Parse(args)
	var pkgs []string
	if *pk != "" {
		pkgs = strings.Split(*pk, ",")
	}
	e, err := setup(*repo, *verif, pkgs)
	if err != nil {
		fmt.Fprintln(os.Stderr, err)
		return 2
	}
	var u *Unit
	if *lemma != "" {
		u, err = e.verifyLemma(*lemma)
	} else {
		u, err = e.verifyFunc(*fn)
	}
	if err != nil {
		fmt.Fprintln(os.Stderr, "ERROR:", err)
		if u == nil {
			return 2
		}
	}
	dir, _ := os.MkdirTemp("", "govc.")
	defer os.RemoveAll(dir)
	cfg := &solveCfg{tier: "quick", dir: dir, quickT: 5, slowT: 15, workers: 16}
	for i, o := range u.obls {
		if *obl != "" && o.Name == *obl {
			fmt.Println(u.script(o, true))
			return 0
		}
		if *run {
			o.scriptText = u.script(o, true)
		}
		_ = i
	}
	if *run {
		var jobs []job
		for _, o := range u.obls {
			jobs = append(jobs, job{u, o})
		}
		dischargeAll(jobs, cfg)
	}
	for _, o := range u.obls {
		fmt.Printf("%-8s %-8s %6.2fs %s   -- %s\n", o.Result, o.Solver, o.Secs, o.Name, o.Src)
		if o.Result == "sat" && !o.Cover {
			fmt.Println("    model:", firstLines(o.Model, 40))
		}
		if o.Comment != "" {
			fmt.Println("    ", o.Comment)
		}
	}
	for _, n := range u.notes {
		fmt.Println("note:", n)
	}
	return 0
}

type evidence struct {
	PropertyID  string                 `json:"property_id"`
	Tier        string                 `json:"tier"`
	Seed        int                    `json:"seed"`
	Level       string                 `json:"level"`
	Coverage    map[string]interface{} `json:"coverage"`
	Assumptions []string               `json:"assumptions"`
	WallS       float64                `json:"wall_s"`
	Violations  int                    `json:"violations"`
}

func cmdCheck(args []string) int {
	fs := flag.NewFlagSet("check", flag.ExitOnError)
	repo := fs.String("repo", "/repo", "")
	verif := fs.String("verif", "/verif", "")
	prop := fs.String("prop", "", "property id")
	tier := fs.String("tier", "quick", "")
	update := fs.Bool("update-baseline", false, "rewrite props/<id>.expected from this run")
	fs.Parse(args)
	t0 := time.Now()
	var pc PropCfg
	raw, err := os.ReadFile(filepath.Join(*verif, "props", *prop+".json"))
	if err != nil {
		fmt.Fprintln(os.Stderr, err)
		return 2
	}
	if err := json.Unmarshal(raw, &pc); err != nil {
		fmt.Fprintln(os.Stderr, err)
		return 2
	}
	res := runProperty(&pc, *repo, *verif, *tier, *update)
	res.WallS = time.Since(t0).Seconds()
	evDir := filepath.Join(*verif, "evidence")
	if d := os.Getenv("GOVC_EVIDENCE_DIR"); d != "" {
		evDir = d
	}
	os.MkdirAll(evDir, 0o755)
	out, _ := json.MarshalIndent(res.ev(), "", " ")
	os.WriteFile(filepath.Join(evDir, *prop+".json"), out, 0o644)
	for _, l := range res.lines {
		fmt.Println(l)
	}
	fmt.Printf("%s %s: %d obligations, %d discharged, %d violations, %.1fs\n", *prop, *tier, res.nObl, res.nDis, res.nViol, res.WallS)
	if res.nViol > 0 || res.broken {
		return 1
	}
	return 0
}

func sortedSet(m map[string]bool) []string {
	var out []string
	for k := range m {
		out = append(out, k)
	}
	sort.Strings(out)
	return out
}

// cmdReplay re-runs a replay harness on the real code (or prints the note of an obligation that has no
// concrete input). Exit 1 when the violation is reproduced / still recorded.
func cmdReplay(args []string) int {
	fs := flag.NewFlagSet("replay", flag.ExitOnError)
	file := fs.String("file", "", "")
	repo := fs.String("repo", "/repo", "")
	fs.Parse(args)
	if r := os.Getenv("GOVC_REPO"); r != "" {
		*repo = r
	}
	raw, err := os.ReadFile(*file)
	if err != nil {
		fmt.Fprintln(os.Stderr, err)
		return 2
	}
	text := string(raw)
	if !strings.HasSuffix(*file, ".go") {
		fmt.Print(text)
		fmt.Println("no-failing-input-found: this obligation has no concrete input; the solver output above is the evidence")
		return 1
	}
	var pkgDir string
	for _, l := range strings.Split(text, "\n") {
		if strings.HasPrefix(l, "// pkgdir: ") {
			pkgDir = strings.TrimPrefix(l, "// pkgdir: ")
		}
	}
	if pkgDir == "" {
		fmt.Fprintln(os.Stderr, "replay file has no pkgdir header")
		return 2
	}
	if i := strings.Index(text, "\n// OBSERVED"); i >= 0 {
		fmt.Println("recorded at check time:" + text[i:])
		text = text[:i]
	}
	tmpd, _ := os.MkdirTemp("", "govc-replay.")
	defer os.RemoveAll(tmpd)
	oc, errs := runHarnessDir(filepath.Join(*repo, pkgDir), text, tmpd)
	if errs != "" {
		fmt.Println("harness did not run:", errs)
		return 2
	}
	js, _ := json.Marshal(oc)
	fmt.Println("observed now on the real code:", string(js))
	if oc.Panic != "" {
		fmt.Println("PANIC reproduced:", oc.Panic)
	}
	return 1
}

// cmdLocals writes props/locals.json, the baseline of declared variable names used for rename tolerance.
func cmdLocals(args []string) int {
	fs := flag.NewFlagSet("locals", flag.ExitOnError)
	repo := fs.String("repo", "/repo", "")
	verif := fs.String("verif", "/verif", "")
	pk := fs.String("pkgs", "", "comma separated package patterns")
	fs.Parse(args)
	os.Setenv("GOVC_NOALIAS", "1")
	e, err := setup(*repo, *verif, strings.Split(*pk, ","))
	if err != nil {
		fmt.Fprintln(os.Stderr, err)
		return 2
	}
	if err := e.writeFieldsBaseline(*verif); err != nil {
		fmt.Fprintln(os.Stderr, err)
		return 2
	}
	if err := e.writeLocalsBaseline(*verif); err != nil {
		fmt.Fprintln(os.Stderr, err)
		return 2
	}
	return 0
}
