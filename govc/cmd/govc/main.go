package main

import (
	"encoding/json"
	"flag"
	"fmt"
	"os"
	"path/filepath"
	"sort"
	"strings"
	"time"
)

type PropCfg struct {
	ID        string   `json:"id"`
	Packages  []string `json:"packages"`
	Functions []string `json:"functions"`
	Lemmas    []string `json:"lemmas"`
	Notes     []string `json:"notes"`
	Bounded   []string `json:"bounded"`
	TrackAlloc bool    `json:"track_alloc"`
}

func main() {
	if len(os.Args) < 2 {
		fmt.Fprintln(os.Stderr, "usage: govc check|dump|list ...")
		os.Exit(2)
	}
	switch os.Args[1] {
	case "check":
		os.Exit(cmdCheck(os.Args[2:]))
	case "dump":
		os.Exit(cmdDump(os.Args[2:]))
	default:
		fmt.Fprintln(os.Stderr, "unknown command", os.Args[1])
		os.Exit(2)
	}
}

func setup(repo, verif string, pkgs []string) (*Engine, error) {
	if len(pkgs) == 0 {
		pkgs = []string{"./...."}
	}
	e, err := loadEngine(repo, pkgs)
	if err != nil {
		return nil, err
	}
	e.inlineStd["binary.(bigEndian).PutUint16"] = true
	e.inlineStd["binary.(bigEndian).PutUint32"] = true
	e.inlineStd["binary.(bigEndian).Uint16"] = true
	e.inlineStd["binary.(bigEndian).Uint32"] = true
	if err := e.loadAllSpecs(filepath.Join(verif, "spec")); err != nil {
		return nil, err
	}
	return e, nil
}

func cmdDump(args []string) int {
	fs := flag.NewFlagSet("dump", flag.ExitOnError)
	repo := fs.String("repo", "/repo", "")
	verif := fs.String("verif", "/verif", "")
	fn := fs.String("func", "", "function key")
	lemma := fs.String("lemma", "", "lemma name")
	obl := fs.String("obl", "", "print the SMT script of this obligation")
	pk := fs.String("pkgs", "", "comma separated package patterns")
	run := fs.Bool("run", false, "run the solvers")
	fs.Parse(args)
	var pkgs []string
	if *pk != "" {
		pkgs = strings.Split(*pk, ",")
	}
	e, err := setup(*repo, *verif, pkgs)
	if err != nil {
		fmt.Fprintln(os.Stderr, err)
		return 2
	}
	var u *Unit
	if *lemma != "" {
		u, err = e.verifyLemma(*lemma)
	} else {
		u, err = e.verifyFunc(*fn)
	}
	if err != nil {
		fmt.Fprintln(os.Stderr, "ERROR:", err)
		if u == nil {
			return 2
		}
	}
	dir, _ := os.MkdirTemp("", "govc.")
	defer os.RemoveAll(dir)
	cfg := &solveCfg{tier: "quick", dir: dir, quickT: 5, slowT: 15, workers: 16}
	for i, o := range u.obls {
		if *obl != "" && o.Name == *obl {
			fmt.Println(u.script(o, true))
			return 0
		}
		if *run {
			o.scriptText = u.script(o, true)
		}
		_ = i
	}
	if *run {
		var jobs []job
		for _, o := range u.obls {
			jobs = append(jobs, job{u, o})
		}
		dischargeAll(jobs, cfg)
	}
	for _, o := range u.obls {
		fmt.Printf("%-8s %-8s %6.2fs %s   -- %s\n", o.Result, o.Solver, o.Secs, o.Name, o.Src)
		if o.Result == "sat" && !o.Cover {
			fmt.Println("    model:", firstLines(o.Model, 40))
		}
		if o.Comment != "" {
			fmt.Println("    ", o.Comment)
		}
	}
	for _, n := range u.notes {
		fmt.Println("note:", n)
	}
	return 0
}

type evidence struct {
	PropertyID  string                 `json:"property_id"`
	Tier        string                 `json:"tier"`
	Seed        int                    `json:"seed"`
	Level       string                 `json:"level"`
	Coverage    map[string]interface{} `json:"coverage"`
	Assumptions []string               `json:"assumptions"`
	WallS       float64                `json:"wall_s"`
	Violations  int                    `json:"violations"`
}

func cmdCheck(args []string) int {
	fs := flag.NewFlagSet("check", flag.ExitOnError)
	repo := fs.String("repo", "/repo", "")
	verif := fs.String("verif", "/verif", "")
	prop := fs.String("prop", "", "property id")
	tier := fs.String("tier", "quick", "")
	update := fs.Bool("update-baseline", false, "rewrite props/<id>.expected from this run")
	fs.Parse(args)
	t0 := time.Now()
	var pc PropCfg
	raw, err := os.ReadFile(filepath.Join(*verif, "props", *prop+".json"))
	if err != nil {
		fmt.Fprintln(os.Stderr, err)
		return 2
	}
	if err := json.Unmarshal(raw, &pc); err != nil {
		fmt.Fprintln(os.Stderr, err)
		return 2
	}
	res := runProperty(&pc, *repo, *verif, *tier, *update)
	res.WallS = time.Since(t0).Seconds()
	os.MkdirAll(filepath.Join(*verif, "evidence"), 0o755)
	out, _ := json.MarshalIndent(res.ev(), "", " ")
	os.WriteFile(filepath.Join(*verif, "evidence", *prop+".json"), out, 0o644)
	for _, l := range res.lines {
		fmt.Println(l)
	}
	fmt.Printf("%s %s: %d obligations, %d discharged, %d violations, %.1fs\n", *prop, *tier, res.nObl, res.nDis, res.nViol, res.WallS)
	if res.nViol > 0 || res.broken {
		return 1
	}
	return 0
}

func sortedSet(m map[string]bool) []string {
	var out []string
	for k := range m {
		out = append(out, k)
	}
	sort.Strings(out)
	return out
}
