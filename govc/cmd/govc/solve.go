package main

import (
	"sort"
	"bytes"
	"context"
	"fmt"
	"os"
	"os/exec"
	"path/filepath"
	"strings"
	"sync"
	"time"
)

type solverSpec struct {
	name string
	argv func(file string, timeoutS int) []string
}

var solvers = map[string]solverSpec{
	"z3-new": {"z3-new", func(f string, t int) []string { return []string{"z3-new", fmt.Sprintf("-T:%d", t), f} }},
	"z3":     {"z3", func(f string, t int) []string { return []string{"z3", fmt.Sprintf("-T:%d", t), f} }},
	"cvc5": {"cvc5", func(f string, t int) []string {
		return []string{"cvc5", "--produce-models", fmt.Sprintf("--tlimit=%d", t*1000), f}
	}},
}

type solveResult struct {
	status string // unsat | sat | unknown | timeout | error
	out    string
	secs   float64
	solver string
}

func runSolver(name, file string, timeoutS int) solveResult {
	return runSolverCtx(context.Background(), name, file, timeoutS)
}

func runSolverCtx(parent context.Context, name, file string, timeoutS int) solveResult {
	sp := solvers[name]
	argv := sp.argv(file, timeoutS)
	ctx, cancel := context.WithTimeout(parent, time.Duration(timeoutS+3)*time.Second)
	defer cancel()
	cmd := exec.CommandContext(ctx, argv[0], argv[1:]...)
	var out bytes.Buffer
	cmd.Stdout = &out
	cmd.Stderr = &out
	t0 := time.Now()
	cmd.Run()
	secs := time.Since(t0).Seconds()
	text := out.String()
	first := ""
	for _, l := range strings.Split(text, "\n") {
		l = strings.TrimSpace(l)
		if l == "sat" || l == "unsat" || l == "unknown" || l == "timeout" {
			first = l
			break
		}
	}
	res := solveResult{out: text, secs: secs, solver: name}
	// an ill-formed script decides nothing (z3 carries on after an error and answers for the rest)
	for _, l := range strings.Split(text, "\n") {
		if strings.HasPrefix(strings.TrimSpace(l), "(error") && !strings.Contains(l, "model is not available") && first != "unsat" {
			res.status = "error"
			return res
		}
	}
	switch {
	case first == "unsat":
		res.status = "unsat"
	case first == "sat":
		res.status = "sat"
	case first == "unknown":
		res.status = "unknown"
	case first == "timeout" || ctx.Err() != nil || strings.Contains(text, "timeout") || strings.Contains(text, "interrupted"):
		res.status = "timeout"
	default:
		res.status = "error"
	}
	return res
}

type solveCfg struct {
	tier    string
	dir     string
	quickT  int
	slowT   int
	workers int
}

// discharge runs the portfolio on one obligation.
func discharge(u *Unit, o *Obligation, cfg *solveCfg, idx int) {
	if o.Result == "trivial" {
		o.Solver = "syntactic"
		return
	}
	script := o.scriptText
	if script == "" {
		if o.Result == "" {
			o.Result = "error"
		}
		return
	}
	if len(script) > 4<<20 {
		o.Result = "too-large"
		o.Comment = fmt.Sprintf("SMT script %d bytes exceeds the 4 MB cap", len(script))
		return
	}
	file := filepath.Join(cfg.dir, fmt.Sprintf("o%05d.smt2", idx))
	os.WriteFile(file, []byte(script), 0o644)
	o.Script = file
	want := "unsat"
	if o.Cover {
		want = "sat"
	}
	record := func(r solveResult) bool {
		o.Secs += r.secs
		if r.status == "unsat" || r.status == "sat" {
			o.Result = r.status
			o.Solver = r.solver
			if r.status == "sat" {
				o.Model = r.out
			}
			return true
		}
		if o.Result == "" || o.Result == "error" {
			o.Result = r.status
			o.Solver = r.solver
			if r.status == "error" {
				o.Comment = firstLines(r.out, 3)
			}
		}
		return false
	}
	_ = want
	thorough := cfg.tier == "thorough"
	if o.Cover {
		// vacuity guards: the quantifier-free part decides almost all of them in milliseconds (an unsat there is
		// an unsat of the whole; a sat there is reported as such)
		var sb strings.Builder
		for _, l := range strings.Split(script, "\n") {
			if strings.HasPrefix(l, "(assert") && (strings.Contains(l, "(forall ") || strings.Contains(l, "(exists ")) {
				continue
			}
			sb.WriteString(l + "\n")
		}
		qf := file + ".qf.smt2"
		os.WriteFile(qf, []byte(sb.String()), 0o644)
		r := runSolver("z3-new", qf, cfg.quickT)
		o.Secs += r.secs
		if r.status == "sat" || r.status == "unsat" {
			o.Result = r.status
			o.Solver = "z3-new(quantifier-free part)"
			if r.status == "sat" && os.Getenv("GOVC_NOFULLCOVER") == "" {
				// the quantified facts can be contradictory where the quantifier-free ones are not: a short attempt
				// at the whole script; only a definite unsat counts (unknown / timeout is the normal answer)
				rf := runSolver("z3-new", file, 2)
				o.Secs += rf.secs
				if rf.status == "unsat" {
					o.Result = "unsat"
					o.Solver = "z3-new(all facts)"
				}
			}
			return
		}
		// undecided vacuity guards are not failures; they are reported as undecided
		o.Result = "unknown"
		o.Solver = "z3-new(quantifier-free part)"
		return
	}
	// a short first attempt, then the three solvers race (the losers are stopped)
	if record(runSolver("z3-new", file, 3)) {
		if thorough {
			crossCheck(o, file)
		}
		return
	}
	slowT := cfg.slowT
	if strings.Contains(o.Tag, "slow") {
		// a clause marked slow in its contract gets four times the budget (it is known to need tens of seconds)
		slowT *= 4
	}
	race := []string{"z3-new", "z3", "cvc5"}
	ctx, cancel := context.WithCancel(context.Background())
	ch := make(chan solveResult, len(race))
	for _, s := range race {
		go func(s string) { ch <- runSolverCtx(ctx, s, file, slowT) }(s)
	}
	done := false
	for range race {
		r := <-ch
		if !done && record(r) {
			done = true
			cancel()
		}
	}
	cancel()
	if done {
		if thorough {
			crossCheck(o, file)
		}
		return
	}
	// undecided (quantifiers): look for a candidate counterexample of the quantifier-free part; it only
	// counts if the replay confirms it on the real code
	qfs := qfPart(script)
	if o.candText != "" {
		qfs = o.candText
	}
	qf := file + ".qf.smt2"
	os.WriteFile(qf, []byte(qfs), 0o644)
	r := runSolver("z3-new", qf, cfg.quickT)
	o.Secs += r.secs
	if r.status == "sat" {
		o.Candidate = qfs
		o.Model = r.out
	}
}

func qfPart(script string) string {
	var sb strings.Builder
	for _, l := range strings.Split(script, "\n") {
		if strings.HasPrefix(l, "(assert") && (strings.Contains(l, "(forall ") || strings.Contains(l, "(exists ")) && !strings.HasPrefix(l, "(assert (not ") {
			continue
		}
		sb.WriteString(l + "\n")
	}
	return sb.String()
}

func firstLines(s string, n int) string {
	ls := strings.Split(s, "\n")
	if len(ls) > n {
		ls = ls[:n]
	}
	return strings.Join(ls, " | ")
}

type job struct {
	u *Unit
	o *Obligation
}

func dischargeAll(jobs []job, cfg *solveCfg) {
	var wg sync.WaitGroup
	ch := make(chan int)
	for w := 0; w < cfg.workers; w++ {
		wg.Add(1)
		go func() {
			defer wg.Done()
			for i := range ch {
				discharge(jobs[i].u, jobs[i].o, cfg, i)
			}
		}()
	}
	for i := range jobs {
		ch <- i
	}
	close(ch)
	wg.Wait()
}

// crossCheck (thorough tier): an obligation that one solver discharged is put to the other two as well, with a short
// budget. Agreement is recorded in the evidence (solver names joined by +); a solver that finds a model where another
// proved the obligation is a disagreement and is reported as not discharged.
func crossCheck(o *Obligation, file string) {
	if o.Result != "unsat" {
		return
	}
	first := o.Solver
	var others []string
	for _, s := range []string{"z3-new", "z3", "cvc5"} {
		if s != first {
			others = append(others, s)
		}
	}
	ch := make(chan solveResult, len(others))
	for _, s := range others {
		go func(s string) { ch <- runSolver(s, file, 10) }(s)
	}
	agree := []string{first}
	for range others {
		r := <-ch
		o.Secs += r.secs
		switch r.status {
		case "unsat":
			agree = append(agree, r.solver)
		case "sat":
			o.Result = "sat"
			o.Model = r.out
			o.Comment = "solver disagreement: unsat by " + first + ", sat by " + r.solver
			o.Solver = r.solver
			return
		}
	}
	sort.Strings(agree)
	o.Solver = strings.Join(agree, "+")
}
