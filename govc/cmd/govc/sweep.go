package main

import (
	"flag"
	"go/types"
	"fmt"
	"os"
	"path/filepath"
	"sort"
	"strings"

	"golang.org/x/tools/go/ssa"
)

// cmdSweep: zero-annotation safety sweep. Every loop-free function of the given packages that has no contract is
// executed symbolically with unconstrained arguments (pointer receivers non-nil); its safe.* obligations (index,
// nil, type assertion, explicit panic, division) are put to the solvers. An obligation that fails under no
// precondition is only a candidate (the function may have an implicit precondition); candidates are replayed on the
// real code and listed. The sweep proves nothing and is not a registered check: it is a way to look for defects.
func cmdSweep(args []string) int {
	fs := flag.NewFlagSet("sweep", flag.ExitOnError)
	repo := fs.String("repo", "/repo", "")
	verif := fs.String("verif", "/verif", "")
	pk := fs.String("pkgs", "", "comma separated package patterns")
	fs.Parse(args)
	pkgs := strings.Split(*pk, ",")
	e, err := setup(*repo, *verif, pkgs)
	if err != nil {
		fmt.Fprintln(os.Stderr, err)
		return 2
	}
	var keys []string
	for _, p := range e.pkgByName {
		if !strings.HasPrefix(p.Pkg.Path(), "gitlab.com/gomidi/midi/v2") {
			continue
		}
		var fns []*ssa.Function
		for _, m := range p.Members {
			switch x := m.(type) {
			case *ssa.Function:
				fns = append(fns, x)
			case *ssa.Type:
				ms := e.prog.MethodSets.MethodSet(x.Type())
				for i := 0; i < ms.Len(); i++ {
					if f := e.prog.MethodValue(ms.At(i)); f != nil {
						fns = append(fns, f)
					}
				}
				pms := e.prog.MethodSets.MethodSet(types.NewPointer(x.Type()))
				for i := 0; i < pms.Len(); i++ {
					if f := e.prog.MethodValue(pms.At(i)); f != nil {
						fns = append(fns, f)
					}
				}
			}
		}
		for _, f := range fns {
			if f.Blocks == nil || f.Synthetic != "" || f.Pkg != p || len(findLoops(f)) > 0 {
				continue
			}
			k := funcKey(f)
			if e.contracts[k] != nil || strings.HasPrefix(f.Name(), "verif") || strings.HasPrefix(f.Name(), "init") {
				continue
			}
			keys = append(keys, k)
		}
	}
	sort.Strings(keys)
	seen := map[string]bool{}
	dir, _ := os.MkdirTemp("", "govc-sweep.")
	defer os.RemoveAll(dir)
	cfg := &solveCfg{tier: "quick", dir: dir, quickT: 5, slowT: 10, workers: 14}
	nf, nfail := 0, 0
	for _, k := range keys {
		if seen[k] {
			continue
		}
		seen[k] = true
		u, err := e.verifyFunc(k)
		if err != nil || u == nil {
			continue
		}
		nf++
		var jobs []job
		for _, o := range u.obls {
			if strings.HasPrefix(o.Kind, "safe") && o.Result != "trivial" {
				o.scriptText = u.script(o, true)
				jobs = append(jobs, job{u, o})
			}
		}
		dischargeAll(jobs, cfg)
		for _, j := range jobs {
			if j.o.Result == "sat" {
				nfail++
				ok, path := replayObligation(e, j.u, j.o, *repo, filepath.Join(*verif, "replays", "sweep"))
				verdict := "not confirmed"
				if ok {
					verdict = "CONFIRMED on the real code"
				}
				fmt.Printf("SWEEP %s: %s [%s] %s\n", j.o.Name, j.o.Src, verdict, path)
			}
		}
	}
	fmt.Printf("sweep: %d loop-free functions without contract, %d failing safety obligations\n", nf, nfail)
	return 0
}
