package main

import (
	"fmt"
	"os"
	"go/constant"
	"go/token"
	"go/types"
	"math/big"
	"strings"

	"golang.org/x/tools/go/ssa"
)

type SpecEnv struct {
	u     *Unit
	vars  map[string]Val
	st    *State
	old   *State
	pkg   *ssa.Package
	bound map[string]Term
	ctx   string
	pats  *[]string
	asGoal bool // the formula is about to be proved: one variant per quantifier is enough
	pivotNode *SX
	pivotVar  string
	pivots    map[*SX]string // further pivot sites (several binders)
	inOld bool
	// resolveLocal resolves a source-level local variable name (loop invariants)
	resolveLocal func(name string) (Val, bool)
}

func (e *SpecEnv) bad(format string, a ...interface{}) {
	panic(unsupported{fmt.Sprintf("spec %s: %s", e.ctx, fmt.Sprintf(format, a...))})
}

func (e *SpecEnv) with(vars map[string]Val) *SpecEnv {
	n := *e
	n.vars = map[string]Val{}
	for k, v := range e.vars {
		n.vars[k] = v
	}
	for k, v := range vars {
		n.vars[k] = v
	}
	return &n
}

var seqSort = &Sort{K: KArray, Go: types.NewArray(types.Typ[types.Uint8], 0)}

// sortByName resolves a sort name used in binders and spec function signatures.
func (e *Engine) sortByName(tc *typeCtx, name string, pkg *ssa.Package) *Sort {
	switch name {
	case "int":
		return sInt
	case "bool":
		return sBool
	case "real", "float64":
		return sReal
	case "uint8", "byte":
		return bvSort(8, false)
	case "uint16":
		return bvSort(16, false)
	case "uint32":
		return bvSort(32, false)
	case "uint64":
		return bvSort(64, false)
	case "int8":
		return bvSort(8, true)
	case "int16":
		return bvSort(16, true)
	case "int32":
		return bvSort(32, true)
	case "int64":
		return bvSort(64, true)
	case "seq":
		return seqSort
	case "str", "string":
		return sStr
	case "slice", "bytes":
		return &Sort{K: KSlice, Go: types.NewSlice(types.Typ[types.Uint8])}
	case "ref":
		return &Sort{K: KRef, Go: types.Typ[types.UnsafePointer]}
	case "err", "error":
		return sErr
	}
	if r, ok := e.records[name]; ok {
		return r
	}
	if pkg != nil {
		if obj := pkg.Pkg.Scope().Lookup(name); obj != nil {
			if tn, ok := obj.(*types.TypeName); ok {
				return tc.sortOf(tn.Type())
			}
		}
	}
	// pkg.Type
	if i := strings.Index(name, "."); i > 0 {
		if p := e.pkgByName[name[:i]]; p != nil {
			if obj := p.Pkg.Scope().Lookup(name[i+1:]); obj != nil {
				if tn, ok := obj.(*types.TypeName); ok {
					return tc.sortOf(tn.Type())
				}
			}
		}
	}
	panic(unsupported{"unknown sort name " + name})
}

func isLit(t Term) bool { return t.T == nil }

func (e *SpecEnv) coerce(t Term, s *Sort) Term {
	if !isLit(t) {
		return t
	}
	switch s.K {
	case KInt, KRef, KErr, KFunc, KMap:
		return Term{t.S, s}
	case KBV:
		txt := t.S
		if strings.HasPrefix(txt, "(- ") {
			txt = "-" + strings.TrimSuffix(strings.TrimPrefix(txt, "(- "), ")")
		}
		bi, ok := new(big.Int).SetString(txt, 0)
		if !ok {
			e.bad("bad literal %s", t.S)
		}
		return bvConst(bi, s)
	case KReal:
		if strings.Contains(t.S, ".") {
			return Term{t.S, s}
		}
		return Term{t.S + ".0", s}
	}
	e.bad("cannot use literal %s as sort kind %d", t.S, s.K)
	return t
}

func litTerm(s string) Term {
	bi, ok := new(big.Int).SetString(s, 0)
	if ok {
		if bi.Sign() < 0 {
			return Term{"(- " + new(big.Int).Neg(bi).String() + ")", nil}
		}
		return Term{bi.String(), nil}
	}
	return Term{s, nil}
}

func (e *SpecEnv) unify(a, b Term) (Term, Term) {
	if isLit(a) && isLit(b) {
		return Term{a.S, sInt}, Term{b.S, sInt}
	}
	if isLit(a) {
		return e.coerce(a, b.T), b
	}
	if isLit(b) {
		return a, e.coerce(b, a.T)
	}
	// Int vs BV: lift the BV to Int
	if a.T.K == KInt && b.T.K == KBV {
		return a, e.u.toInt(b)
	}
	if a.T.K == KBV && b.T.K == KInt {
		return e.u.toInt(a), b
	}
	if a.T.K == KReal && b.T.K == KInt {
		return a, Term{"(to_real " + b.S + ")", sReal}
	}
	if a.T.K == KInt && b.T.K == KReal {
		return Term{"(to_real " + a.S + ")", sReal}, b
	}
	if a.T.K == KBV && b.T.K == KBV && a.T.W != b.T.W {
		e.bad("bit-vector width mismatch: %s (%d) vs %s (%d)", a.S, a.T.W, b.S, b.T.W)
	}
	return a, b
}

// evalAs evaluates x where a value of sort s is expected (literals and conditionals adapt to it).
func (e *SpecEnv) evalAs(x *SX, s *Sort) Term {
	if x.Op == "ite" {
		c := e.evalBool(x.Args[0])
		return ite(c, e.evalAs(x.Args[1], s), e.evalAs(x.Args[2], s))
	}
	t := e.eval(x)
	if isLit(t) {
		return e.coerce(t, s)
	}
	if s.K == KInt && t.T.K == KBV {
		return e.u.toInt(t)
	}
	if s.K == KReal && t.T.K == KInt {
		return Term{"(to_real " + t.S + ")", sReal}
	}
	return t
}

// evalGoal evaluates a clause that is about to be proved: universal quantifiers in positive position
// (top level, right of ==>, conjuncts) are replaced by fresh constants (skolemisation of the negated goal).
func (e *SpecEnv) evalGoal(x *SX) Term {
	u := e.u
	if !e.asGoal {
		n := *e
		n.asGoal = true
		return n.evalGoal(x)
	}
	switch {
	case x.Op == "forall":
		n := *e
		n.bound = map[string]Term{}
		for k, v := range e.bound {
			n.bound[k] = v
		}
		for i, bn := range x.BindNames {
			s := u.eng.sortByName(u.tc, x.BindTypes[i], e.pkg)
			n.bound[bn] = u.declare("sk_"+bn, s)
		}
		return n.evalGoal(x.Args[0])
	case x.Op == "bin" && x.Tok == "==>":
		return implies(e.evalBool(x.Args[0]), e.evalGoal(x.Args[1]))
	case x.Op == "bin" && x.Tok == "&&":
		return and(e.evalGoal(x.Args[0]), e.evalGoal(x.Args[1]))
	}
	return e.evalBool(x)
}

func (e *SpecEnv) evalBool(x *SX) Term {
	t := e.eval(x)
	if isLit(t) || t.T.K != KBool {
		e.bad("boolean expected: %s", x)
	}
	return t
}

func (e *SpecEnv) evalInt(x *SX) Term {
	t := e.eval(x)
	if isLit(t) {
		return Term{t.S, sInt}
	}
	if t.T.K == KBV {
		return e.u.toInt(t)
	}
	if t.T.K != KInt {
		e.bad("integer expected: %s", x)
	}
	return t
}

func (e *SpecEnv) valTerm(name string, v Val) Term {
	switch v := v.(type) {
	case Term:
		return v
	case *derefOnUse:
		return e.u.load(e.st, v.ptr)
	case *FuncRef:
		return e.u.funcIdent(v.Fn)
	case *Closure:
		return e.u.funcIdent(v.Fn)
	case *PtrPath:
		e.bad("%s is an interior pointer and cannot be used as a value", name)
	}
	e.bad("%s has no term value (%T)", name, v)
	return Term{}
}

func (e *SpecEnv) eval(x *SX) Term {
	u := e.u
	switch x.Op {
	case "num", "char":
		return litTerm(x.Tok)
	case "real":
		return Term{x.Tok, sReal}
	case "str":
		return u.strConst(x.Tok)
	case "ident":
		return e.ident(x)
	case "un":
		switch x.Tok {
		case "!":
			return not(e.evalBool(x.Args[0]))
		case "-":
			a := e.eval(x.Args[0])
			if isLit(a) {
				if strings.HasPrefix(a.S, "(- ") {
					return Term{strings.TrimSuffix(strings.TrimPrefix(a.S, "(- "), ")"), nil}
				}
				return Term{"(- " + a.S + ")", nil}
			}
			switch a.T.K {
			case KBV:
				return Term{"(bvneg " + a.S + ")", a.T}
			default:
				return Term{"(- " + a.S + ")", a.T}
			}
		case "^":
			a := e.eval(x.Args[0])
			if isLit(a) || a.T.K != KBV {
				e.bad("^ needs a bit-vector: %s", x)
			}
			return Term{"(bvnot " + a.S + ")", a.T}
		case "*":
			a := e.eval(x.Args[0])
			if isLit(a) || a.T.K != KRef {
				e.bad("* needs a pointer: %s", x)
			}
			return u.load(e.st, a)
		}
	case "bin":
		return e.bin(x)
	case "ite":
		c := e.evalBool(x.Args[0])
		a, b := e.unify(e.eval(x.Args[1]), e.eval(x.Args[2]))
		return ite(c, a, b)
	case "forall", "exists":
		return e.quant(x)
	case "field":
		return e.field(x)
	case "index":
		return e.index(x)
	case "call":
		return e.call(x)
	case "slice":
		e.bad("slice expressions are only allowed as arguments of seq()")
	}
	e.bad("cannot evaluate %s", x)
	return Term{}
}

func (e *SpecEnv) ident(x *SX) Term {
	u := e.u
	name := x.Tok
	if t, ok := e.bound[name]; ok {
		return t
	}
	switch name {
	case "true":
		return mkBool(true)
	case "false":
		return mkBool(false)
	case "nil":
		return Term{"0", nil}
	case "result":
		if v, ok := e.vars["result"]; ok {
			return e.valTerm(name, v)
		}
		if v, ok := e.vars["result0"]; ok {
			return e.valTerm(name, v)
		}
	}
	if e.resolveLocal != nil && !e.inOld {
		// inside a loop invariant a name denotes the current value of the variable (parameters are mutable)
		if v, ok := e.resolveLocal(name); ok {
			return e.valTerm(name, v)
		}
	}
	if v, ok := e.vars[name]; ok {
		return e.valTerm(name, v)
	}
	if g, ok := u.eng.ghosts[name]; ok {
		return u.ghost(e.st, name, g)
	}
	if e.pkg != nil {
		if t, ok := e.pkgIdent(e.pkg, name); ok {
			return t
		}
	}
	e.bad("unknown identifier %s", name)
	return Term{}
}

func (e *SpecEnv) pkgIdent(pkg *ssa.Package, name string) (Term, bool) {
	u := e.u
	obj := pkg.Pkg.Scope().Lookup(name)
	if obj == nil {
		return Term{}, false
	}
	switch o := obj.(type) {
	case *types.Const:
		if b, ok := o.Type().Underlying().(*types.Basic); ok && b.Info()&types.IsUntyped != 0 {
			if o.Val().Kind() == constant.Int {
				return litTerm(o.Val().ExactString()), true
			}
		}
		v := u.constVal(o.Val(), o.Type())
		return v.(Term), true
	case *types.Var:
		g, _ := pkg.Members[name].(*ssa.Global)
		if g == nil {
			return Term{}, false
		}
		if isErrorType(o.Type()) {
			return u.eng.errConst(pkg.Pkg.Name() + "." + name), true
		}
		if v, ok := u.eng.globalValue(u, g); ok {
			return v.(Term), true
		}
		s := u.tc.sortOf(o.Type())
		return u.ghost(e.st, "glob."+pkg.Pkg.Name()+"."+name, s), true
	}
	return Term{}, false
}

func (e *SpecEnv) field(x *SX) Term {
	u := e.u
	// package-qualified identifier?
	if x.Args[0].Op == "ident" {
		pn := x.Args[0].Tok
		_, isVar := e.vars[pn]
		_, isBound := e.bound[pn]
		if !isVar && !isBound {
			if p := u.eng.pkgByName[pn]; p != nil {
				if t, ok := e.pkgIdent(p, x.Tok); ok {
					return t
				}
			}
			if pn == "io" && x.Tok == "EOF" {
				return u.eng.errConst("io.EOF")
			}
		}
	}
	b := e.eval(x.Args[0])
	if isLit(b) {
		e.bad("field of literal: %s", x)
	}
	// ghost fields
	if gf, ok := u.eng.ghostFields[x.Tok]; ok {
		var id Term
		switch b.T.K {
		case KIface:
			id = Term{"(i-val " + b.S + ")", sInt}
		case KRef:
			id = b
		}
		if id.S != "" {
			if _, isStructField := e.structField(b, x.Tok); !isStructField {
				h := u.heap(e.st, "GF."+x.Tok, "(Array Int "+u.tc.smt(gf)+")")
				return sel(h, id, gf)
			}
		}
	}
	switch b.T.K {
	case KRecord:
		for i, f := range b.T.Fields {
			if f == x.Tok {
				return Term{"(R_" + b.T.Name + "." + f + " " + b.S + ")", b.T.Elems[i]}
			}
		}
		e.bad("record %s has no field %s", b.T.Name, x.Tok)
	case KRef:
		el := u.pointee(b)
		idx, ok := e.structField(b, x.Tok)
		if !ok {
			e.bad("no field %s in %s", x.Tok, el)
		}
		hn, hs, fs := u.fieldHeapName(el, idx)
		t := sel(u.heap(e.st, hn, hs), b, fs)
		if fs.K == KSlice && e.resolveLocal != nil && !strings.Contains(t.S, "q_") && !u.wfSeen[t.S] {
			// (loop invariants only) a slice stored in the heap is well formed, as for a load by the program;
			// without this an invariant would depend on whether the program happened to load the slice before the loop
			if u.wfSeen == nil {
				u.wfSeen = map[string]bool{}
			}
			u.wfSeen[t.S] = true
			u.assume(u.wfSlice(t))
		}
		return t
	case KStruct:
		idx, ok := e.structField(b, x.Tok)
		if !ok {
			e.bad("no field %s in %s", x.Tok, b.T.Go)
		}
		sn := u.tc.structName(b.T.Go)
		return Term{"(" + u.tc.fieldSel(sn, idx) + " " + b.S + ")", u.tc.sortOf(u.tc.structNames[sn].Field(idx).Type())}
	}
	e.bad("field access on sort kind %d: %s", b.T.K, x)
	return Term{}
}

func (e *SpecEnv) structField(b Term, name string) (int, bool) {
	var t types.Type
	switch b.T.K {
	case KRef:
		pt, ok := b.T.Go.Underlying().(*types.Pointer)
		if !ok {
			return 0, false
		}
		t = pt.Elem()
	case KStruct:
		t = b.T.Go
	default:
		return 0, false
	}
	st, ok := t.Underlying().(*types.Struct)
	if !ok {
		return 0, false
	}
	for i := 0; i < st.NumFields(); i++ {
		if st.Field(i).Name() == name {
			return i, true
		}
	}
	return 0, false
}

func (e *SpecEnv) index(x *SX) Term {
	u := e.u
	b := e.eval(x.Args[0])
	i := e.evalInt(x.Args[1])
	if isLit(b) {
		e.bad("index of literal")
	}
	switch b.T.K {
	case KSlice:
		el := b.T.Go.Underlying().(*types.Slice).Elem()
		hn, hs, es := u.elemHeapName(el)
		h := u.heap(e.st, hn, hs)
		arr := Term{"(select " + h.S + " (s-ref " + b.S + "))", nil}
		if pv, ok := e.pivotFor(x); ok {
			r := sel(arr, Term{pv, sInt}, es)
			if e.pats != nil {
				*e.pats = append(*e.pats, r.S)
			}
			return r
		}
		return sel(arr, add(sliceOff(b), i), es)
	case KStr:
		if pv, ok := e.pivotFor(x); ok {
			r := sel(Term{"(str-arr " + b.S + ")", nil}, Term{pv, sInt}, bvSort(8, false))
			if e.pats != nil {
				*e.pats = append(*e.pats, r.S)
			}
			return r
		}
		return sel(Term{"(str-arr " + b.S + ")", nil}, i, bvSort(8, false))
	case KArray:
		el := b.T.Go.Underlying().(*types.Array).Elem()
		if pv, ok := e.pivotFor(x); ok {
			r := sel(b, Term{pv, sInt}, u.tc.sortOf(el))
			if e.pats != nil {
				*e.pats = append(*e.pats, r.S)
			}
			return r
		}
		return sel(b, i, u.tc.sortOf(el))
	case KRef:
		if at, ok := u.pointee(b).Underlying().(*types.Array); ok {
			hn, hs, es := u.elemHeapName(at.Elem())
			h := u.heap(e.st, hn, hs)
			return sel(Term{"(select " + h.S + " " + b.S + ")", nil}, i, es)
		}
	}
	e.bad("cannot index %s", x.Args[0])
	return Term{}
}

func (e *SpecEnv) bin(x *SX) Term {
	op := x.Tok
	switch op {
	case "&&":
		return and(e.evalBool(x.Args[0]), e.evalBool(x.Args[1]))
	case "||":
		return or(e.evalBool(x.Args[0]), e.evalBool(x.Args[1]))
	case "==>":
		return implies(e.evalBool(x.Args[0]), e.evalBool(x.Args[1]))
	case "<==>":
		return eq(e.evalBool(x.Args[0]), e.evalBool(x.Args[1]))
	}
	a := e.eval(x.Args[0])
	b := e.eval(x.Args[1])
	// shifts: the count does not have to match
	if op == "<<" || op == ">>" {
		if isLit(a) {
			a = Term{a.S, sInt}
		}
		if isLit(b) {
			b = Term{b.S, sInt}
		}
		if a.T.K == KInt {
			if op == "<<" {
				return Term{"(* " + a.S + " " + pow2(b) + ")", sInt}
			}
			return Term{"(div " + a.S + " " + pow2(b) + ")", sInt}
		}
		amt := e.u.shiftAmount(b, a.T)
		o := "bvshl"
		if op == ">>" {
			o = "bvlshr"
			if a.T.Signed {
				o = "bvashr"
			}
		}
		return Term{"(" + o + " " + a.S + " " + amt.S + ")", a.T}
	}
	// nil comparisons
	if (op == "==" || op == "!=") && (isLit(a) || isLit(b)) {
		l, o := a, b
		if isLit(b) {
			l, o = b, a
		}
		if l.S == "0" && !isLit(o) {
			var r Term
			switch o.T.K {
			case KSlice:
				r = Term{"(= (s-ref " + o.S + ") 0)", sBool}
			case KIface:
				r = Term{"(= (i-tag " + o.S + ") 0)", sBool}
			}
			if r.S != "" {
				if op == "!=" {
					return not(r)
				}
				return r
			}
		}
	}
	a, b = e.unify(a, b)
	k := a.T.K
	signed := a.T.Signed
	switch op {
	case "==":
		if k == KStr {
			return e.u.strEq(a, b)
		}
		return eq(a, b)
	case "!=":
		if k == KStr {
			return not(e.u.strEq(a, b))
		}
		return not(eq(a, b))
	}
	if k == KInt || k == KReal {
		switch op {
		case "+", "-", "*":
			return Term{"(" + op + " " + a.S + " " + b.S + ")", a.T}
		case "/":
			if k == KReal {
				return Term{"(/ " + a.S + " " + b.S + ")", a.T}
			}
			return Term{"(div " + a.S + " " + b.S + ")", a.T}
		case "%":
			return Term{"(mod " + a.S + " " + b.S + ")", a.T}
		case "<", "<=", ">", ">=":
			return Term{"(" + op + " " + a.S + " " + b.S + ")", sBool}
		}
	}
	if k == KBV {
		m := map[string]string{"+": "bvadd", "-": "bvsub", "*": "bvmul", "&": "bvand", "|": "bvor", "^": "bvxor"}
		if o, ok := m[op]; ok {
			return Term{"(" + o + " " + a.S + " " + b.S + ")", a.T}
		}
		switch op {
		case "&^":
			return Term{"(bvand " + a.S + " (bvnot " + b.S + "))", a.T}
		case "/":
			if signed {
				return Term{"(bvsdiv " + a.S + " " + b.S + ")", a.T}
			}
			return Term{"(bvudiv " + a.S + " " + b.S + ")", a.T}
		case "%":
			if signed {
				return Term{"(bvsrem " + a.S + " " + b.S + ")", a.T}
			}
			return Term{"(bvurem " + a.S + " " + b.S + ")", a.T}
		}
		cm := map[string][2]string{"<": {"bvult", "bvslt"}, "<=": {"bvule", "bvsle"}, ">": {"bvugt", "bvsgt"}, ">=": {"bvuge", "bvsge"}}
		if o, ok := cm[op]; ok {
			if signed {
				return Term{"(" + o[1] + " " + a.S + " " + b.S + ")", sBool}
			}
			return Term{"(" + o[0] + " " + a.S + " " + b.S + ")", sBool}
		}
	}
	e.bad("operator %s not applicable in %s", op, x)
	return Term{}
}

func pow2(b Term) string {
	// only constants supported for Int shifts
	var n int
	if _, err := fmt.Sscanf(b.S, "%d", &n); err == nil && n >= 0 && n < 256 {
		return new(big.Int).Lsh(big.NewInt(1), uint(n)).String()
	}
	panic(unsupported{"shift of a mathematical integer by a non-constant"})
}

func (e *SpecEnv) call(x *SX) Term {
	u := e.u
	fx := x.Args[0]
	args := x.Args[1:]
	if fx.Op != "ident" {
		// pkg.Func(...) spec functions are not supported; conversions like pkg.Type(x)
		if fx.Op == "field" && fx.Args[0].Op == "ident" {
			s := u.eng.sortByName(u.tc, fx.Args[0].Tok+"."+fx.Tok, e.pkg)
			return e.convertTo(e.eval(args[0]), s)
		}
		e.bad("unsupported call %s", x)
	}
	name := fx.Tok
	switch name {
	case "old":
		if e.old == nil {
			e.bad("old() outside a postcondition")
		}
		n := *e
		n.st = e.old
		n.inOld = true
		return n.eval(args[0])
	case "len":
		a := e.eval(args[0])
		switch a.T.K {
		case KSlice:
			return sliceLen(a)
		case KStr:
			return Term{"(str-len " + a.S + ")", sInt}
		case KArray:
			return Term{fmt.Sprint(a.T.Go.Underlying().(*types.Array).Len()), sInt}
		}
		e.bad("len of %s", args[0])
	case "cap":
		return sliceCap(e.eval(args[0]))
	case "ref":
		a := e.eval(args[0])
		if a.T.K == KSlice {
			return sliceRef(a)
		}
		return Term{a.S, sInt}
	case "addr":
		// addr(x): the reference of the cell of an address-taken local variable or captured variable x
		if args[0].Op == "ident" {
			var v Val
			if e.resolveLocal != nil {
				if lv, ok := e.resolveLocal(args[0].Tok); ok {
					v = lv
				}
			}
			if v == nil {
				v = e.vars[args[0].Tok]
			}
			if d, ok := v.(*derefOnUse); ok {
				if pt, ok := d.ptr.(Term); ok {
					return Term{pt.S, sInt}
				}
			}
		}
		e.bad("addr() needs an address-taken local variable")
	case "off":
		return sliceOff(e.eval(args[0]))
	case "mapget", "maphas":
		// mapget(m, k) / maphas(m, k): the value stored under key k in the Go map m, and whether k is present
		a := e.eval(args[0])
		if a.T.K != KMap {
			e.bad("%s needs a map", name)
		}
		mt := a.T.Go.Underlying().(*types.Map)
		k := e.evalAs(args[1], u.tc.sortOf(mt.Key()))
		get, has := u.mapFuncs(mt)
		ep := u.ghost(e.st, "mapEpoch", sInt)
		if name == "maphas" {
			return Term{fmt.Sprintf("(%s %s %s %s)", has, a.S, ep.S, k.S), sBool}
		}
		return Term{fmt.Sprintf("(%s %s %s %s)", get, a.S, ep.S, k.S), u.tc.sortOf(mt.Elem())}
	case "emb":
		// emb(p, F): the identity of the lock embedded as field F in the object p points to (see call.go: the
		// same synthetic identity is handed to the contracts of the sync package)
		a := e.eval(args[0])
		if a.T.K != KRef || args[1].Op != "ident" {
			e.bad("emb(pointer, FieldName)")
		}
		idx, ok := e.structField(a, args[1].Tok)
		if !ok {
			e.bad("emb: no field %s", args[1].Tok)
		}
		return Term{fmt.Sprintf("(- 0 (+ (* %s 64) %d))", a.S, idx+1), &Sort{K: KRef, Go: types.NewPointer(types.Typ[types.Int])}}
	case "fresh":
		// the object was allocated during the call
		a := e.eval(args[0])
		var r Term
		if a.T.K == KSlice {
			r = sliceRef(a)
		} else if a.T.K == KIface {
			r = Term{"(i-val " + a.S + ")", sInt} // the object the interface value points to
		} else {
			r = Term{a.S, sInt}
		}
		if e.old == nil {
			e.bad("fresh() outside a postcondition")
		}
		return and(le(u.nextRef(e.old), r), lt(r, u.nextRef(e.st)))
	case "seq":
		// seq(s) : the elements of a byte slice / string as a mathematical sequence value
		return e.seqOf(args[0])
	case "distinctElems":
		// distinctElems(s): the elements of slice s are pairwise different (stated over absolute indices of the
		// backing array, so that the two-variable trigger matches whatever the offset is)
		a := e.eval(args[0])
		if a.T.K != KSlice {
			e.bad("distinctElems() needs a slice")
		}
		hn, hs, _ := u.elemHeapName(a.T.Go.Underlying().(*types.Slice).Elem())
		h := u.heap(e.st, hn, hs)
		arr := "(select " + h.S + " (s-ref " + a.S + "))"
		return Term{fmt.Sprintf("(forall ((q_da Int) (q_db Int)) (! (=> (and (<= (s-off %[1]s) q_da) (< q_da q_db) (< q_db (+ (s-off %[1]s) (s-len %[1]s)))) (not (= (select %[2]s q_da) (select %[2]s q_db)))) :pattern ((select %[2]s q_da) (select %[2]s q_db))))", a.S, arr), sBool}
	case "raw":
		// raw(s): the whole backing array of a byte slice (index it with off(s)+i); no shift, no axiom
		a := e.eval(args[0])
		if a.T.K != KSlice {
			e.bad("raw() needs a slice")
		}
		hn, hs, _ := u.elemHeapName(a.T.Go.Underlying().(*types.Slice).Elem())
		h := u.heap(e.st, hn, hs)
		return Term{"(select " + h.S + " (s-ref " + a.S + "))", seqSort}
	case "arr":
		// arr(s) : the elements of a byte slice / string as an array indexed from 0 (sort seq)
		t := e.seqOf(args[0])
		return Term{"(str-arr " + t.S + ")", seqSort}
	case "int":
		a := e.eval(args[0])
		if isLit(a) {
			return Term{a.S, sInt}
		}
		if a.T.K == KReal {
			return Term{"(to_int " + a.S + ")", sInt}
		}
		return u.toInt(a)
	case "real":
		a := e.eval(args[0])
		if isLit(a) {
			return e.coerce(a, sReal)
		}
		switch a.T.K {
		case KInt:
			return Term{"(to_real " + a.S + ")", sReal}
		case KBV:
			return Term{"(to_real " + u.toInt(a).S + ")", sReal}
		case KReal:
			return a
		}
	case "cb_len", "cb_byte", "cb_i32", "cb_fn":
		i := e.evalInt(args[0])
		if name == "cb_fn" {
			return sel(u.heap(e.st, "G.cb_fn", "(Array Int Int)"), i, &Sort{K: KFunc})
		}
		if args[1].Op != "num" {
			e.bad("%s: the argument position must be a literal", name)
		}
		k := args[1].Tok
		switch name {
		case "cb_len":
			return sel(u.heap(e.st, "G.cb_a"+k+"_len", "(Array Int Int)"), i, sInt)
		case "cb_byte":
			j := e.evalInt(args[2])
			arr := u.heap(e.st, "G.cb_a"+k+"_arr", "(Array Int (Array Int (_ BitVec 8)))")
			off := sel(u.heap(e.st, "G.cb_a"+k+"_off", "(Array Int Int)"), i, sInt)
			return sel(Term{"(select " + arr.S + " " + i.S + ")", nil}, add(off, j), bvSort(8, false))
		case "cb_i32":
			s32 := bvSort(32, true)
			return sel(u.heap(e.st, "G.cb_a"+k+"_"+sanitize(u.tc.smt(s32)), "(Array Int (_ BitVec 32))"), i, s32)
		}
	case "typeid":
		// typeid(T): the tag of dynamic type T inside interface values (T is a Go type name, e.g. uint16, smf.MetricTicks)
		if args[0].Op == "ident" {
			return Term{fmt.Sprint(u.eng.typeTagByName(args[0].Tok, e.pkg)), sInt}
		}
		if args[0].Op == "field" && args[0].Args[0].Op == "ident" {
			return Term{fmt.Sprint(u.eng.typeTagByName(args[0].Args[0].Tok+"."+args[0].Tok, e.pkg)), sInt}
		}
		if args[0].Op == "un" && args[0].Tok == "*" {
			inner := args[0].Args[0]
			if inner.Op == "field" {
				return Term{fmt.Sprint(u.eng.typeTagByName("*"+inner.Args[0].Tok+"."+inner.Tok, e.pkg)), sInt}
			}
			return Term{fmt.Sprint(u.eng.typeTagByName("*"+inner.Tok, e.pkg)), sInt}
		}
		e.bad("typeid needs a type name")
	case "ival":
		a := e.eval(args[0])
		if a.T.K != KIface {
			e.bad("ival needs an interface value")
		}
		return Term{"(i-val " + a.S + ")", sInt}
	case "asptr":
		// asptr(x, T): the pointer to T stored in interface value x (meaningful when typeof(x) == typeid(*T))
		a := e.eval(args[0])
		if a.T.K != KIface || args[1].Op != "ident" && args[1].Op != "field" {
			e.bad("asptr(interface value, Type)")
		}
		tn := args[1].Tok
		pkg := e.pkg
		if args[1].Op == "field" {
			pkg = u.eng.pkgByName[args[1].Args[0].Tok]
		}
		if pkg == nil {
			e.bad("asptr: unknown package")
		}
		if args[1].Op == "ident" {
			if tn == "bytes" {
				return Term{"(i-val " + a.S + ")", &Sort{K: KRef, Go: types.NewPointer(types.NewSlice(types.Typ[types.Uint8]))}}
			}
			if uo, ok := types.Universe.Lookup(tn).(*types.TypeName); ok {
				return Term{"(i-val " + a.S + ")", &Sort{K: KRef, Go: types.NewPointer(uo.Type())}}
			}
		}
		obj := pkg.Pkg.Scope().Lookup(tn)
		if obj == nil {
			e.bad("asptr: unknown type %s", tn)
		}
		return Term{"(i-val " + a.S + ")", &Sort{K: KRef, Go: types.NewPointer(obj.Type())}}
	case "bval":
		// the fixed-width payload of an interface value, as a 64-bit vector
		a := e.eval(args[0])
		if a.T.K != KIface {
			e.bad("bval needs an interface value")
		}
		return Term{"(i-bv " + a.S + ")", bvSort(64, false)}
	case "f2u32":
		// the library's float -> uint32 conversion (uninterpreted, see exec.go convert)
		a := e.eval(args[0])
		u.useSpec("f2bv32")
		return Term{"(f2bv32 " + a.S + ")", bvSort(32, false)}
	case "isint":
		a := e.eval(args[0])
		return Term{"(is_int " + a.S + ")", sBool}
	case "typeof":
		a := e.eval(args[0])
		if a.T.K != KIface {
			e.bad("typeof needs an interface value")
		}
		return Term{"(i-tag " + a.S + ")", sInt}
	}
	if rs, ok := u.eng.records[name]; ok {
		if len(args) != len(rs.Fields) {
			e.bad("record %s has %d fields", name, len(rs.Fields))
		}
		var ts []Term
		for i, a := range args {
			t := e.eval(a)
			if isLit(t) {
				t = e.coerce(t, rs.Elems[i])
			} else if rs.Elems[i].K == KInt && t.T.K == KBV {
				t = u.toInt(t)
			}
			ts = append(ts, t)
		}
		return app("mk-R_"+name, rs, ts...)
	}
	if mc, ok := u.eng.macros[name]; ok {
		if len(args) != len(mc.Params) {
			e.bad("macro %s expects %d arguments", name, len(mc.Params))
		}
		sub := map[string]*SX{}
		for i, p := range mc.Params {
			sub[p] = args[i]
		}
		return e.eval(substSX(mc.Body, sub))
	}
	// spec function?
	if sf, ok := u.eng.specFuncs[name]; ok {
		u.useSpec(name)
		if len(args) != len(sf.ParamSorts) {
			e.bad("spec function %s expects %d arguments", name, len(sf.ParamSorts))
		}
		var ts []Term
		for i, a := range args {
			ps := sf.ParamSorts[i]
			t := e.evalAs(a, ps)
			if isLit(t) {
				t = e.coerce(t, ps)
			} else if ps.K == KInt && t.T.K == KBV {
				t = u.toInt(t)
			} else if ps.K == KBV && t.T.K == KBV && ps.W != t.T.W {
				e.bad("argument %d of %s: width %d, want %d", i, name, t.T.W, ps.W)
			} else if ps.K == KRecord && t.T.K == KRecord && ps.Name == t.T.Name {
				// ok
			} else if ps.K != t.T.K && !(intLike(ps.K) && intLike(t.T.K)) {
				e.bad("argument %d of %s has the wrong sort (%d, want %d)", i, name, t.T.K, ps.K)
			}
			ts = append(ts, t)
		}
		if len(ts) == 0 {
			return Term{name, sf.Result}
		}
		return app(name, sf.Result, ts...)
	}
	if r := tryConv(e, name, args); r != nil {
		return *r
	}
	e.bad("unknown function %s", name)
	return Term{}
}

func tryConv(e *SpecEnv, name string, args []*SX) (res *Term) {
	if len(args) != 1 {
		return nil
	}
	var s *Sort
	ok := func() (ok bool) {
		defer func() {
			if r := recover(); r != nil {
				ok = false
			}
		}()
		s = e.u.eng.sortByName(e.u.tc, name, e.pkg)
		return true
	}()
	if !ok {
		return nil
	}
	t := e.convertTo(e.eval(args[0]), s)
	return &t
}

func intLike(k SortKind) bool {
	return k == KInt || k == KRef || k == KErr || k == KFunc || k == KMap
}

func (e *SpecEnv) convertTo(t Term, s *Sort) Term {
	if isLit(t) {
		return e.coerce(t, s)
	}
	switch {
	case s.K == KBV && (t.T.K == KBV || t.T.K == KInt):
		return e.u.toBV(t, s)
	case s.K == KInt && t.T.K == KBV:
		return e.u.toInt(t)
	case s.K == t.T.K:
		return Term{t.S, s}
	case s.K == KReal && t.T.K == KInt:
		return Term{"(to_real " + t.S + ")", s}
	}
	e.bad("unsupported conversion in spec")
	return t
}

// seqOf turns a byte slice (or a sub-slice s[a:b]) or string into a Str value (array shifted to index 0).
func (e *SpecEnv) seqOf(x *SX) Term {
	u := e.u
	var lo, hi *SX
	base := x
	if x.Op == "slice" {
		base, lo, hi = x.Args[0], x.Args[1], x.Args[2]
	}
	b := e.eval(base)
	zero := Term{"0", sInt}
	loT := zero
	if lo != nil {
		loT = e.evalInt(lo)
	}
	switch b.T.K {
	case KStr:
		hiT := Term{"(str-len " + b.S + ")", sInt}
		if hi != nil {
			hiT = e.evalInt(hi)
		}
		if lo == nil && hi == nil {
			return b
		}
		return Term{"(mk-str (shift8 (str-arr " + b.S + ") " + loT.S + ") " + sub(hiT, loT).S + ")", sStr}
	case KSlice:
		hiT := sliceLen(b)
		if hi != nil {
			hiT = e.evalInt(hi)
		}
		hn, hs, _ := u.elemHeapName(types.Typ[types.Uint8])
		h := u.heap(e.st, hn, hs)
		u.useSpec("shift8")
		return Term{"(mk-str (shift8 (select " + h.S + " (s-ref " + b.S + ")) " + add(sliceOff(b), loT).S + ") " + sub(hiT, loT).S + ")", sStr}
	}
	e.bad("seq() of a non-sequence")
	return Term{}
}

var _ = token.ADD

// findPivot finds an expression s such that the body contains s[v] with v the bound variable and s not
// depending on any bound variable.
func findPivot(x *SX, v string, binders []string) *SX {
	if x == nil {
		return nil
	}
	if x.Op == "index" && x.Args[1].Op == "ident" && x.Args[1].Tok == v && !mentions(x.Args[0], binders) {
		return x.Args[0]
	}
	if x.Op == "forall" || x.Op == "exists" {
		return nil
	}
	for _, a := range x.Args {
		if p := findPivot(a, v, binders); p != nil {
			return p
		}
	}
	return nil
}

func mentions(x *SX, names []string) bool {
	if x == nil {
		return false
	}
	if x.Op == "ident" {
		for _, n := range names {
			if x.Tok == n {
				return true
			}
		}
	}
	for _, a := range x.Args {
		if mentions(a, names) {
			return true
		}
	}
	return false
}

func substSX(x *SX, sub map[string]*SX) *SX {
	if x == nil {
		return nil
	}
	if x.Op == "ident" {
		if r, ok := sub[x.Tok]; ok {
			return r
		}
		return x
	}
	n := *x
	n.Args = make([]*SX, len(x.Args))
	for i, a := range x.Args {
		n.Args[i] = substSX(a, sub)
	}
	if len(x.Pats) > 0 {
		n.Pats = make([]*SX, len(x.Pats))
		for i, a := range x.Pats {
			n.Pats[i] = substSX(a, sub)
		}
	}
	return &n
}

type pivotCand struct {
	node  *SX // the index node
	off   *SX // additive offset in the index expression (nil = none)
	neg   bool
	inOld bool // the node sits under old(...): its base (and the offset of that slice) belong to the old state
}

// pivotCandidates collects index expressions  s[v], s[E+v], s[v+E], s[v-E]  (s and E free of bound variables).
func pivotCandidates(x *SX, v string, binders []string, acc []pivotCand) []pivotCand {
	return pivotCandidatesIn(x, v, binders, acc, false)
}

func pivotCandidatesIn(x *SX, v string, binders []string, acc0 []pivotCand, inOld bool) []pivotCand {
	if x == nil || x.Op == "forall" || x.Op == "exists" {
		return acc0
	}
	if x.Op == "call" && len(x.Args) == 2 && x.Args[0].Op == "ident" && x.Args[0].Tok == "old" {
		return pivotCandidatesIn(x.Args[1], v, binders, acc0, true)
	}
	n0 := len(acc0)
	acc := acc0
	defer func() {
		_ = n0
	}()
	if x.Op == "index" && !mentions(x.Args[0], binders) {
		ix := x.Args[1]
		switch {
		case ix.Op == "ident" && ix.Tok == v:
			acc = append(acc, pivotCand{node: x, inOld: inOld})
		case ix.Op == "bin" && ix.Tok == "+" && ix.Args[1].Op == "ident" && ix.Args[1].Tok == v && !mentions(ix.Args[0], binders):
			acc = append(acc, pivotCand{node: x, off: ix.Args[0], inOld: inOld})
		case ix.Op == "bin" && ix.Tok == "+" && ix.Args[0].Op == "ident" && ix.Args[0].Tok == v && !mentions(ix.Args[1], binders):
			acc = append(acc, pivotCand{node: x, off: ix.Args[1], inOld: inOld})
		case ix.Op == "bin" && ix.Tok == "-" && ix.Args[0].Op == "ident" && ix.Args[0].Tok == v && !mentions(ix.Args[1], binders):
			acc = append(acc, pivotCand{node: x, off: ix.Args[1], neg: true, inOld: inOld})
		}
	}
	for _, a := range x.Args {
		acc = pivotCandidatesIn(a, v, binders, acc, inOld)
	}
	return acc
}

// quant evaluates a quantifier. A universal quantifier over one integer variable that indexes sequences is
// emitted once per indexing site in absolute-index form (q = offset + i, trigger (select a q)), so that
// E-matching fires from either side of a copy-like fact.
func (e *SpecEnv) quant(x *SX) Term {
	u := e.u
	mk := func(pc *pivotCand) (Term, bool) {
		n := *e
		n.bound = map[string]Term{}
		for k, v := range e.bound {
			n.bound[k] = v
		}
		var pats []string
		n.pats = &pats
		n.pivotNode = nil
		var decl []string
		for i, bn := range x.BindNames {
			s := u.eng.sortByName(u.tc, x.BindTypes[i], e.pkg)
			qn := "q_" + bn
			n.bound[bn] = Term{qn, s}
			decl = append(decl, "("+qn+" "+u.tc.smt(s)+")")
		}
		if pc != nil {
			ok := func() (ok bool) {
				defer func() {
					if r := recover(); r != nil {
						ok = false
					}
				}()
				bn := x.BindNames[0]
				qn := "q_" + bn
				be := e
				if pc.inOld && !e.inOld {
					if e.old == nil {
						return false
					}
					oe := *e
					oe.st = e.old
					oe.inOld = true
					be = &oe
				}
				b := be.eval(pc.node.Args[0])
				if isLit(b) {
					return false
				}
				shift := Term{"0", sInt}
				if b.T.K == KSlice {
					shift = sliceOff(b)
				} else if b.T.K != KStr && b.T.K != KArray {
					return false
				}
				if pc.off != nil {
					o := be.evalInt(pc.off)
					if pc.neg {
						shift = sub(shift, o)
					} else {
						shift = add(shift, o)
					}
				}
				if shift.S == "0" {
					n.bound[bn] = Term{qn, sInt}
				} else {
					n.bound[bn] = Term{"(- " + qn + " " + shift.S + ")", sInt}
				}
				n.pivotNode = pc.node
				n.pivotVar = qn
				return true
			}()
			if !ok {
				return Term{}, false
			}
		}
		body := n.evalBool(x.Args[0])
		if len(x.Pats) > 0 {
			var pts []string
			for _, p := range x.Pats {
				pts = append(pts, n.eval(p).S)
			}
			return Term{"(" + x.Op + " (" + strings.Join(decl, " ") + ") (! " + body.S + " :pattern (" + strings.Join(pts, " ") + ")))", sBool}, true
		}
		if len(pats) > 0 {
			return Term{"(" + x.Op + " (" + strings.Join(decl, " ") + ") (! " + body.S + " :pattern (" + pats[0] + ")))", sBool}, true
		}
		return Term{"(" + x.Op + " (" + strings.Join(decl, " ") + ") " + body.S + ")", sBool}, true
	}
	if x.Op == "forall" && len(x.BindNames) == 1 && len(x.Pats) == 0 {
		if s := u.eng.sortByName(u.tc, x.BindTypes[0], e.pkg); s.K == KInt {
			cands := pivotCandidates(x.Args[0], x.BindNames[0], x.BindNames, nil)
			var vs []Term
			seen := map[string]bool{}
			for i := range cands {
				if len(vs) >= maxVariants() || (e.asGoal && len(vs) >= 1) {
					break
				}
				t, ok := mk(&cands[i])
				if ok && !seen[t.S] {
					seen[t.S] = true
					vs = append(vs, t)
				}
			}
			if len(vs) > 0 {
				return and(vs...)
			}
		}
	}
	if x.Op == "forall" && len(x.BindNames) > 1 && len(x.Pats) == 0 && os.Getenv("GOVC_NOMULTIPIVOT") == "" {
		allInt := true
		for _, bt := range x.BindTypes {
			if s := u.eng.sortByName(u.tc, bt, e.pkg); s.K != KInt {
				allInt = false
			}
		}
		if allInt {
			if t, ok := e.quantMulti(x); ok {
				return t
			}
		}
	}
	t, _ := mk(nil)
	return t
}

func maxVariants() int {
	if v := os.Getenv("GOVC_VARIANTS"); v != "" {
		var n int
		fmt.Sscanf(v, "%d", &n)
		if n > 0 {
			return n
		}
	}
	return 2
}

func (e *SpecEnv) pivotFor(x *SX) (string, bool) {
	if e.pivotNode == x && x != nil {
		return e.pivotVar, true
	}
	if v, ok := e.pivots[x]; ok {
		return v, true
	}
	return "", false
}

// quantMulti emits a universal quantifier over several integer binders in absolute-index form: for each
// binder (in order) an indexing site s[v] is chosen whose base mentions only earlier binders; v is replaced
// by q_v - offset(s), the site itself by (select array q_v), and the sites together form the multi-pattern.
// This is what makes facts such as "for all bars i and events j of bar i ..." usable: the trigger matches a
// ground term a[x] whatever shape the index x has.
func (e *SpecEnv) quantMulti(x *SX) (Term, bool) {
	u := e.u
	n := *e
	n.bound = map[string]Term{}
	for k, v := range e.bound {
		n.bound[k] = v
	}
	var pats []string
	n.pats = &pats
	n.pivotNode = nil
	n.pivots = map[*SX]string{}
	for k, v := range e.pivots {
		n.pivots[k] = v
	}
	var decl []string
	ok := func() (ok bool) {
		defer func() {
			if r := recover(); r != nil {
				ok = false
			}
		}()
		for bi, bn := range x.BindNames {
			qn := "q_" + bn
			decl = append(decl, "("+qn+" Int)")
			later := x.BindNames[bi:]
			cands := pivotCandidatesIn(x.Args[0], bn, later, nil, false)
			var pc *pivotCand
			for i := range cands {
				if cands[i].off == nil {
					pc = &cands[i]
					break
				}
			}
			if pc == nil {
				return false
			}
			be := &n
			if pc.inOld && !n.inOld {
				if n.old == nil {
					return false
				}
				oe := n
				oe.st = n.old
				oe.inOld = true
				be = &oe
			}
			b := be.eval(pc.node.Args[0])
			if isLit(b) {
				return false
			}
			shift := Term{"0", sInt}
			if b.T.K == KSlice {
				shift = sliceOff(b)
			} else if b.T.K != KStr && b.T.K != KArray {
				return false
			}
			if shift.S == "0" {
				n.bound[bn] = Term{qn, sInt}
			} else {
				n.bound[bn] = Term{"(- " + qn + " " + shift.S + ")", sInt}
			}
			n.pivots[pc.node] = qn
		}
		return true
	}()
	if !ok {
		return Term{}, false
	}
	body := n.evalBool(x.Args[0])
	if len(pats) == 0 {
		return Term{}, false
	}
	// one multi-pattern made of one site per binder (the last sites mention the earlier binders)
	seen := map[string]bool{}
	var mp []string
	for _, p := range pats {
		if !seen[p] {
			seen[p] = true
			mp = append(mp, p)
		}
	}
	_ = u
	return Term{"(forall (" + strings.Join(decl, " ") + ") (! " + body.S + " :pattern (" + strings.Join(mp, " ") + ")))", sBool}, true
}
